// chess_spec.rs — the ORACLE. Plain Rust over raw integers, no dependency on the library under
// verification and none of its tables. Written from the rules of chess / the property statements.
// Included verbatim (via #[path]) into the Kani harness modules and into /verif/native.
//
// Conventions: square = rank*8 + file (a1 = 0 … h8 = 63); colour 0 = white, 1 = black;
// piece 0 = pawn, 1 = knight, 2 = bishop, 3 = rook, 4 = queen, 5 = king; NOPIECE = 6 (no promotion /
// empty square); NOFILE = 8 (no castling right / no en-passant file).
#![allow(dead_code)]
#![allow(clippy::all)]

pub const P: usize = 0;
pub const N: usize = 1;
pub const B: usize = 2;
pub const R: usize = 3;
pub const Q: usize = 4;
pub const K: usize = 5;
pub const NOPIECE: u8 = 6;
pub const NOFILE: u8 = 8;

pub const FILE_A: u64 = 0x0101_0101_0101_0101;
pub const FILE_H: u64 = 0x8080_8080_8080_8080;
pub const RANK_1: u64 = 0x0000_0000_0000_00FF;
pub const RANK_8: u64 = 0xFF00_0000_0000_0000;

#[inline(always)]
pub const fn bit(sq: u8) -> u64 {
    1u64 << (sq & 63)
}
#[inline(always)]
pub const fn file_of(sq: u8) -> u8 {
    sq & 7
}
#[inline(always)]
pub const fn rank_of(sq: u8) -> u8 {
    (sq >> 3) & 7
}
#[inline(always)]
pub const fn sq_of(file: u8, rank: u8) -> u8 {
    ((rank & 7) << 3) | (file & 7)
}
#[inline(always)]
pub const fn rank_bb(rank: u8) -> u64 {
    RANK_1 << (8 * (rank & 7))
}
#[inline(always)]
pub const fn file_bb(file: u8) -> u64 {
    FILE_A << (file & 7)
}
/// rank index as seen from `c` (rank 0 = own back rank)
#[inline(always)]
pub const fn rel_rank(r: u8, c: u8) -> u8 {
    if c == 0 { r } else { 7 - r }
}

// ---------------------------------------------------------------------------------------------
// One-step moves of a set of squares in the eight compass directions (no wrap around the edges).
// 0 = N, 1 = NE, 2 = E, 3 = SE, 4 = S, 5 = SW, 6 = W, 7 = NW
#[inline(always)]
pub const fn step(b: u64, d: u8) -> u64 {
    match d {
        0 => b << 8,
        1 => (b & !FILE_H) << 9,
        2 => (b & !FILE_H) << 1,
        3 => (b & !FILE_H) >> 7,
        4 => b >> 8,
        5 => (b & !FILE_A) >> 9,
        6 => (b & !FILE_A) >> 1,
        _ => (b & !FILE_A) << 7,
    }
}

/// Squares reached from the squares in `g` walking direction `d` up to and including the first
/// occupied square (occupancy `occ`); the start squares themselves are not included.
#[inline(always)]
pub const fn ray(g: u64, occ: u64, d: u8) -> u64 {
    let mut r = 0u64;
    let mut cur = g;
    // seven steps cross the board
    cur = step(cur, d); r |= cur; cur &= !occ;
    cur = step(cur, d); r |= cur; cur &= !occ;
    cur = step(cur, d); r |= cur; cur &= !occ;
    cur = step(cur, d); r |= cur; cur &= !occ;
    cur = step(cur, d); r |= cur; cur &= !occ;
    cur = step(cur, d); r |= cur; cur &= !occ;
    cur = step(cur, d); r |= cur;
    r
}

pub const fn rook_attacks(g: u64, occ: u64) -> u64 {
    ray(g, occ, 0) | ray(g, occ, 2) | ray(g, occ, 4) | ray(g, occ, 6)
}
pub const fn bishop_attacks(g: u64, occ: u64) -> u64 {
    ray(g, occ, 1) | ray(g, occ, 3) | ray(g, occ, 5) | ray(g, occ, 7)
}
pub const fn knight_attacks(g: u64) -> u64 {
    let e = step(g, 2);
    let w = step(g, 6);
    let ee = step(e, 2);
    let ww = step(w, 6);
    step(step(e, 0), 0) | step(step(e, 4), 4) | step(step(w, 0), 0) | step(step(w, 4), 4)
        | step(ee, 0) | step(ee, 4) | step(ww, 0) | step(ww, 4)
}
pub const fn king_attacks(g: u64) -> u64 {
    step(g, 0) | step(g, 1) | step(g, 2) | step(g, 3) | step(g, 4) | step(g, 5) | step(g, 6) | step(g, 7)
}
/// squares attacked by pawns of colour `c` standing on `g`
pub const fn pawn_attacks(g: u64, c: u8) -> u64 {
    if c == 0 { step(g, 1) | step(g, 7) } else { step(g, 3) | step(g, 5) }
}
/// non-capturing advances of a pawn of colour `c` on square `sq`
pub const fn pawn_quiets(sq: u8, c: u8, occ: u64) -> u64 {
    let fwd = if c == 0 { 0 } else { 4 };
    let one = step(bit(sq), fwd) & !occ;
    let two = if rel_rank(rank_of(sq), c) == 1 { step(one, fwd) & !occ } else { 0 };
    one | two
}
/// squares strictly between two aligned squares; empty if not aligned or equal
pub const fn between(a: u8, b: u8) -> u64 {
    let ab = bit(a);
    let bb = bit(b);
    if a == b {
        return 0;
    }
    let mut d = 0u8;
    let mut res = 0u64;
    while d < 8 {
        let r = ray(ab, bb, d);
        if r & bb != 0 {
            res = r & !bb;
        }
        d += 1;
    }
    res
}
/// the whole line (edge to edge) through two distinct aligned squares; empty otherwise
pub const fn line(a: u8, b: u8) -> u64 {
    let ab = bit(a);
    let bb = bit(b);
    if a == b {
        return 0;
    }
    let mut d = 0u8;
    let mut res = 0u64;
    while d < 4 {
        let l = ray(ab, 0, d) | ray(ab, 0, d + 4) | ab;
        if l & bb != 0 {
            res = l;
        }
        d += 1;
    }
    res
}

// ---------------------------------------------------------------------------------------------
// Positions

#[derive(Clone, Copy, PartialEq, Eq, Debug)]
pub struct Pos {
    pub pieces: [u64; 6],
    pub colors: [u64; 2],
    pub stm: u8,
    /// castle[colour][0] = short (king-side) rook file, castle[colour][1] = long rook file
    pub castle: [[u8; 2]; 2],
    pub ep: u8,
    pub halfmove: u8,
    pub fullmove: u16,
}

#[derive(Clone, Copy, PartialEq, Eq, Debug)]
pub struct Mv {
    pub from: u8,
    pub to: u8,
    pub promo: u8,
}

impl Pos {
    #[inline(always)]
    pub const fn occ(&self) -> u64 {
        self.colors[0] | self.colors[1]
    }
    #[inline(always)]
    pub const fn of(&self, c: u8, p: usize) -> u64 {
        self.colors[(c & 1) as usize] & self.pieces[p]
    }
    /// piece kind on a square (NOPIECE if none); first matching bitboard in piece order
    pub const fn piece_at(&self, sq: u8) -> u8 {
        let b = bit(sq);
        if self.pieces[P] & b != 0 { 0 }
        else if self.pieces[N] & b != 0 { 1 }
        else if self.pieces[B] & b != 0 { 2 }
        else if self.pieces[R] & b != 0 { 3 }
        else if self.pieces[Q] & b != 0 { 4 }
        else if self.pieces[K] & b != 0 { 5 }
        else { NOPIECE }
    }
    pub const fn king_bb(&self, c: u8) -> u64 {
        self.of(c, K)
    }
    /// the square of the en-passant target (the square the pawn passed over), if an EP file is set
    pub const fn ep_square(&self) -> u8 {
        // the pawn that just advanced belongs to the side NOT to move
        let them = 1 - (self.stm & 1);
        sq_of(self.ep, rel_rank(2, them))
    }
    pub const fn ep_bb(&self) -> u64 {
        if self.ep < 8 { bit(self.ep_square()) } else { 0 }
    }
}

/// All squares attacked by side `by` when the occupancy is `occ` (forward definition: the union
/// of what each piece of that side attacks).
pub const fn attacked_by(p: &Pos, occ: u64, by: u8) -> u64 {
    let rq = p.of(by, R) | p.of(by, Q);
    let bq = p.of(by, B) | p.of(by, Q);
    rook_attacks(rq, occ) | bishop_attacks(bq, occ) | knight_attacks(p.of(by, N))
        | king_attacks(p.of(by, K)) | pawn_attacks(p.of(by, P), by)
}

/// Pieces of side `by` that attack a square of `target` (a single square) with occupancy `occ`
/// (reverse formulation: a piece attacks the square iff the square "sees" the piece the same way).
pub const fn attackers_of(p: &Pos, occ: u64, target: u64, by: u8) -> u64 {
    let rq = p.of(by, R) | p.of(by, Q);
    let bq = p.of(by, B) | p.of(by, Q);
    (rook_attacks(target, occ) & rq) | (bishop_attacks(target, occ) & bq)
        | (knight_attacks(target) & p.of(by, N)) | (king_attacks(target) & p.of(by, K))
        | (pawn_attacks(target, 1 - (by & 1)) & p.of(by, P))
}

pub const fn in_check(p: &Pos, c: u8) -> bool {
    attacked_by(p, p.occ(), 1 - (c & 1)) & p.king_bb(c) != 0
}

/// enemy pieces attacking the king of colour `c`
pub const fn spec_checkers(p: &Pos, c: u8) -> u64 {
    attackers_of(p, p.occ(), p.king_bb(c), 1 - (c & 1))
}

/// Pieces of either colour that stand alone between the king of colour `c` and an enemy rook,
/// bishop or queen aligned with it on a line that piece moves along.
pub const fn spec_pinned(p: &Pos, c: u8) -> u64 {
    let occ = p.occ();
    let them = 1 - (c & 1);
    let rq = p.of(them, R) | p.of(them, Q);
    let bq = p.of(them, B) | p.of(them, Q);
    let kb = p.king_bb(c);
    let mut pinned = 0u64;
    let mut d = 0u8;
    while d < 8 {
        let first = ray(kb, occ, d) & occ; // first occupied square in this direction
        let second = ray(first, occ, d) & occ; // next occupied square behind it
        let sliders = if d & 1 == 0 { rq } else { bq };
        if second & sliders != 0 {
            pinned |= first;
        }
        d += 1;
    }
    pinned
}

// ---------------------------------------------------------------------------------------------
// Making a move (C02) — the successor position prescribed by the rules.

pub const fn spec_play(p: &Pos, m: Mv) -> Pos {
    let c = p.stm & 1;
    let them = 1 - c;
    let (ci, ti) = (c as usize, them as usize);
    let fb = bit(m.from);
    let tb = bit(m.to);
    let moved = p.piece_at(m.from);
    let back = rel_rank(0, c);
    let their_back = rel_rank(0, them);
    let mut q = *p;
    let is_castle = p.colors[ci] & tb != 0;
    let mut capture = false;
    if is_castle {
        let short = file_of(m.to) > file_of(m.from);
        let kd = bit(sq_of(if short { 6 } else { 2 }, back));
        let rd = bit(sq_of(if short { 5 } else { 3 }, back));
        q.pieces[K] &= !fb;
        q.pieces[R] &= !tb;
        q.colors[ci] &= !(fb | tb);
        q.pieces[K] |= kd;
        q.pieces[R] |= rd;
        q.colors[ci] |= kd | rd;
        q.castle[ci] = [NOFILE, NOFILE];
    } else {
        // remove whatever stands on the destination (a capture)
        if p.colors[ti] & tb != 0 {
            capture = true;
            let mut i = 0;
            while i < 6 {
                q.pieces[i] &= !tb;
                i += 1;
            }
            q.colors[ti] &= !tb;
            // a capture on the square of an enemy castling right removes that right
            if rank_of(m.to) == their_back {
                if p.castle[ti][0] == file_of(m.to) {
                    q.castle[ti][0] = NOFILE;
                } else if p.castle[ti][1] == file_of(m.to) {
                    q.castle[ti][1] = NOFILE;
                }
            }
        }
        // en passant removes the passed pawn
        if moved == P as u8 && p.ep < 8 && m.to == p.ep_square() {
            capture = true;
            let victim = bit(sq_of(p.ep, rel_rank(3, them)));
            q.pieces[P] &= !victim;
            q.colors[ti] &= !victim;
        }
        // lift the piece and drop it (or its promotion) on the destination
        let placed = if moved == P as u8 && m.promo < NOPIECE { m.promo } else { moved };
        if moved < NOPIECE {
            q.pieces[moved as usize] &= !fb;
            q.colors[ci] &= !fb;
        }
        if placed < NOPIECE {
            q.pieces[placed as usize] |= tb;
            q.colors[ci] |= tb;
        }
        // own rights
        if moved == K as u8 {
            q.castle[ci] = [NOFILE, NOFILE];
        }
        if moved == R as u8 && rank_of(m.from) == back {
            if p.castle[ci][0] == file_of(m.from) {
                q.castle[ci][0] = NOFILE;
            } else if p.castle[ci][1] == file_of(m.from) {
                q.castle[ci][1] = NOFILE;
            }
        }
    }
    // en-passant file: set precisely after a two-square pawn advance
    let two_step = moved == P as u8
        && ((m.to as i16) - (m.from as i16) == 16 || (m.from as i16) - (m.to as i16) == 16);
    q.ep = if two_step { file_of(m.to) } else { NOFILE };
    // clocks
    q.halfmove = if moved == P as u8 || capture {
        0
    } else if p.halfmove >= 100 {
        100
    } else {
        p.halfmove + 1
    };
    q.fullmove = if c == 1 {
        if p.fullmove == u16::MAX { u16::MAX } else { p.fullmove + 1 }
    } else {
        p.fullmove
    };
    q.stm = them;
    q
}

// ---------------------------------------------------------------------------------------------
// Legality (C01/C04) — by the rules, no pins, no check masks.

/// Is `to` the castling destination encoding (own rook named by a right) and which wing?
/// returns 0 = short, 1 = long, 2 = not a castling move
pub const fn castle_wing(p: &Pos, m: Mv) -> u8 {
    let c = p.stm & 1;
    let ci = c as usize;
    let back = rel_rank(0, c);
    if p.castle[ci][0] < 8 && m.to == sq_of(p.castle[ci][0], back) {
        return 0;
    }
    if p.castle[ci][1] < 8 && m.to == sq_of(p.castle[ci][1], back) {
        return 1;
    }
    2
}

pub const fn spec_castle_legal(p: &Pos, m: Mv) -> bool {
    let c = p.stm & 1;
    let them = 1 - c;
    let back = rel_rank(0, c);
    let kb = p.king_bb(c);
    if kb != bit(m.from) || m.promo != NOPIECE {
        return false;
    }
    let wing = castle_wing(p, m);
    if wing == 2 {
        return false;
    }
    // the right names an own rook standing on `to`, on the king's rank
    if p.of(c, R) & bit(m.to) == 0 || rank_of(m.from) != back {
        return false;
    }
    let kd = sq_of(if wing == 0 { 6 } else { 2 }, back);
    let rd = sq_of(if wing == 0 { 5 } else { 3 }, back);
    // not in check now
    if in_check(p, c) {
        return false;
    }
    // all squares between king origin/destination and rook origin/destination (destinations
    // included) vacant except for the king and the castling rook
    let span = between(m.from, kd) | bit(kd) | between(m.to, rd) | bit(rd);
    if span & p.occ() & !(kb | bit(m.to)) != 0 {
        return false;
    }
    // no square the king crosses or lands on is attacked (king lifted off the board)
    let path = between(m.from, kd) | bit(kd);
    if attacked_by(p, p.occ() & !kb, them) & path != 0 {
        return false;
    }
    // and the king is not attacked in the resulting position
    let after = spec_play(p, m);
    !in_check(&after, c)
}

pub const fn spec_legal(p: &Pos, m: Mv) -> bool {
    let c = p.stm & 1;
    let ci = c as usize;
    let own = p.colors[ci];
    let enemy = p.colors[1 - ci];
    let occ = p.occ();
    let fb = bit(m.from);
    let tb = bit(m.to);
    if m.from > 63 || m.to > 63 || m.promo > NOPIECE {
        return false;
    }
    if own & fb == 0 {
        return false;
    }
    let kind = p.piece_at(m.from);
    if kind == K as u8 && own & tb != 0 {
        return spec_castle_legal(p, m);
    }
    if own & tb != 0 {
        return false; // never onto an own piece
    }
    let pseudo = match kind as usize {
        P => {
            let caps = pawn_attacks(fb, c) & (enemy | p.ep_bb());
            let dests = pawn_quiets(m.from, c, occ) | caps;
            let last = rel_rank(rank_of(m.to), c) == 7;
            let promo_ok = if last {
                m.promo == N as u8 || m.promo == B as u8 || m.promo == R as u8 || m.promo == Q as u8
            } else {
                m.promo == NOPIECE
            };
            dests & tb != 0 && promo_ok
        }
        N => knight_attacks(fb) & tb != 0 && m.promo == NOPIECE,
        B => bishop_attacks(fb, occ) & tb != 0 && m.promo == NOPIECE,
        R => rook_attacks(fb, occ) & tb != 0 && m.promo == NOPIECE,
        Q => (bishop_attacks(fb, occ) | rook_attacks(fb, occ)) & tb != 0 && m.promo == NOPIECE,
        K => king_attacks(fb) & tb != 0 && m.promo == NOPIECE,
        _ => false,
    };
    if !pseudo {
        return false;
    }
    let after = spec_play(p, m);
    !in_check(&after, c)
}

// ---------------------------------------------------------------------------------------------
// Acceptance (C06): the structural facts every board handed out must satisfy.

/// bitboards describe a placement: the six piece sets are pairwise disjoint, the two colour sets
/// are disjoint and both partitions cover the same squares
pub const fn placement_consistent(p: &Pos) -> bool {
    let mut seen = 0u64;
    let mut i = 0;
    while i < 6 {
        if seen & p.pieces[i] != 0 {
            return false;
        }
        seen |= p.pieces[i];
        i += 1;
    }
    p.colors[0] & p.colors[1] == 0 && seen == p.occ()
}

pub const fn material_ok(p: &Pos) -> bool {
    let mut c = 0u8;
    while c < 2 {
        let own = p.colors[c as usize];
        if own.count_ones() > 16 { return false; }
        if p.of(c, K).count_ones() != 1 { return false; }
        if p.of(c, P).count_ones() > 8 { return false; }
        if p.of(c, P) & (RANK_1 | RANK_8) != 0 { return false; }
        c += 1;
    }
    true
}

pub const fn kings_apart(p: &Pos) -> bool {
    king_attacks(p.of(0, K)) & p.of(1, K) == 0
}

pub const fn rights_ok(p: &Pos) -> bool {
    let mut c = 0u8;
    while c < 2 {
        let ci = c as usize;
        let back = rel_rank(0, c);
        let short = p.castle[ci][0];
        let long = p.castle[ci][1];
        if short > 8 || long > 8 { return false; }
        if short < 8 || long < 8 {
            let kb = p.of(c, K);
            if kb & rank_bb(back) == 0 { return false; }
            let kf = file_of(kb.trailing_zeros() as u8);
            if short < 8 {
                if p.of(c, R) & bit(sq_of(short, back)) == 0 { return false; }
                if !(kf < short) { return false; }
            }
            if long < 8 {
                if p.of(c, R) & bit(sq_of(long, back)) == 0 { return false; }
                if !(long < kf) { return false; }
            }
        }
        c += 1;
    }
    true
}

/// en-passant file backed by an enemy pawn that could just have advanced two squares
pub const fn ep_ok(p: &Pos) -> bool {
    if p.ep == NOFILE { return true; }
    if p.ep > 8 { return false; }
    let them = 1 - (p.stm & 1);
    let origin = bit(sq_of(p.ep, rel_rank(1, them)));
    let passed = bit(sq_of(p.ep, rel_rank(2, them)));
    let pawn = bit(sq_of(p.ep, rel_rank(3, them)));
    p.occ() & (origin | passed) == 0 && p.of(them, P) & pawn != 0
}

/// The extra reachability gate of the validator: with an EP file set, every checker is the pushed
/// pawn or a slider whose line to the king passes through the pawn's origin square.
pub const fn ep_checkers_ok(p: &Pos) -> bool {
    if p.ep >= 8 { return true; }
    let c = p.stm & 1;
    let them = 1 - c;
    let origin = sq_of(p.ep, rel_rank(1, them));
    let pawn = bit(sq_of(p.ep, rel_rank(3, them)));
    let kb = p.king_bb(c);
    // sliders "through the origin": those that the king sees along the direction in which the
    // origin square lies, i.e. the first piece beyond the (empty) origin square on that ray
    let mut through = 0u64;
    let mut d = 0u8;
    while d < 8 {
        let r = ray(kb, p.occ(), d);
        if r & bit(origin) != 0 {
            through |= r & p.occ();
        }
        d += 1;
    }
    spec_checkers(p, c) & !(pawn | through) == 0
}

pub const fn clocks_ok(p: &Pos) -> bool {
    p.halfmove <= 100 && p.fullmove > 0
}

/// the facts of C06 (structural soundness), plus representation consistency
pub const fn spec_sound(p: &Pos) -> bool {
    p.stm <= 1
        && placement_consistent(p)
        && material_ok(p)
        && kings_apart(p)
        && !in_check(p, 1 - (p.stm & 1))
        && rights_ok(p)
        && ep_ok(p)
        && clocks_ok(p)
}

/// the acceptance predicate of the library (what `from_fen` / `build` are supposed to accept):
/// soundness + the two reachability gates
pub const fn spec_accept(p: &Pos) -> bool {
    spec_sound(p) && spec_checkers(p, p.stm & 1).count_ones() <= 2 && ep_checkers_ok(p)
}

// ---------------------------------------------------------------------------------------------
// Null move (C14), status (C12), same position (C13)

pub const fn spec_null(p: &Pos) -> Pos {
    let mut q = *p;
    q.stm = 1 - (p.stm & 1);
    q.ep = NOFILE;
    q.halfmove = if p.halfmove >= 100 { 100 } else { p.halfmove + 1 };
    q.fullmove = if p.stm & 1 == 1 {
        if p.fullmove == u16::MAX { u16::MAX } else { p.fullmove + 1 }
    } else {
        p.fullmove
    };
    q
}

/// 0 = Won, 1 = Drawn, 2 = Ongoing
pub const fn spec_status(has_legal_move: bool, in_check: bool, halfmove: u8) -> u8 {
    if !has_legal_move {
        if in_check { 0 } else { 1 }
    } else if halfmove >= 100 {
        1
    } else {
        2
    }
}

/// the file on which a *pawn* of the side to move can legally capture en passant, else NOFILE
pub const fn spec_effective_ep(p: &Pos) -> u8 {
    if p.ep >= 8 { return NOFILE; }
    let c = p.stm & 1;
    let eps = p.ep_square();
    // candidate capturing pawns stand diagonally behind the EP square
    let cands = pawn_attacks(bit(eps), 1 - c) & p.of(c, P);
    let mut rest = cands;
    let mut i = 0;
    while i < 2 {
        if rest != 0 {
            let from = rest.trailing_zeros() as u8;
            rest &= rest - 1;
            if spec_legal(p, Mv { from, to: eps, promo: NOPIECE }) {
                return p.ep;
            }
        }
        i += 1;
    }
    NOFILE
}

pub const fn same_placement(a: &Pos, b: &Pos) -> bool {
    let mut i = 0;
    while i < 6 {
        if a.pieces[i] != b.pieces[i] { return false; }
        i += 1;
    }
    a.colors[0] == b.colors[0] && a.colors[1] == b.colors[1]
}

pub const fn same_rights(a: &Pos, b: &Pos) -> bool {
    a.castle[0][0] == b.castle[0][0] && a.castle[0][1] == b.castle[0][1]
        && a.castle[1][0] == b.castle[1][0] && a.castle[1][1] == b.castle[1][1]
}

pub const fn spec_same_position(a: &Pos, b: &Pos) -> bool {
    same_placement(a, b) && a.stm == b.stm && same_rights(a, b)
        && spec_effective_ep(a) == spec_effective_ep(b)
}

// ---------------------------------------------------------------------------------------------
// Move batches (C17): the enumeration a batch (piece, from, to-set) stands for.

/// does the batch denote the move `m`?
pub const fn batch_has(piece: u8, from: u8, to: u64, m: Mv) -> bool {
    if m.from != from || to & bit(m.to) == 0 || m.to > 63 {
        return false;
    }
    let r = rank_of(m.to);
    if piece == P as u8 && (r == 0 || r == 7) {
        m.promo == N as u8 || m.promo == B as u8 || m.promo == R as u8 || m.promo == Q as u8
    } else {
        m.promo == NOPIECE
    }
}

pub const fn batch_len(piece: u8, to: u64) -> u32 {
    if piece == P as u8 {
        (to & !(RANK_1 | RANK_8)).count_ones() + 4 * (to & (RANK_1 | RANK_8)).count_ones()
    } else {
        to.count_ones()
    }
}
