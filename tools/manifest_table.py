NOTES = ("Technique family: contract-based deductive verification of the real code. Every check rebuilds from /repo's "
         "working tree (scratch copy + injected #[cfg(kani)] modules), exit 0/1/2 as described in DESIGN.md section 2.")

CLAIMED = {
    "C18": dict(
        category="proof",
        text="Every BitBoard operation is verified against element-wise set semantics by loop-free Kani harnesses over unconstrained 64-bit words (full domain = complete proof); iteration and subset iteration are verified as step contracts on the real `next` functions, the whole-sequence statements follow by a two-line induction. FromIterator is a bounded stand-in (<= 4 squares) and is not counted as proved.",
        design_ref="5/C18",
        note="trusted: Kani/CBMC/CaDiCaL, extraction E1; paper lemmas L-iter and L-subsets (induction over step contracts); collect bounded to 4 elements",
        technique="function contracts (pre/post) on the real BitBoard methods, discharged by Kani/CBMC over the full 2^64 (x2^64) domain; iterator step contracts + induction lemma"),
    "C19": dict(
        category="proof",
        text="Coordinate construction/decomposition/flips/relative views and try_offset are verified against plain coordinate arithmetic by loop-free full-domain Kani harnesses (64 squares x 256 x 256 offsets; CBMC's overflow checks on every arithmetic operation decide 'same answer with and without overflow checks'); char conversions over the whole char domain; Display of Square/File/Rank/Piece/Color/Move is verified through the REAL core::fmt machinery into a fixed buffer, and parse(format(m)) == m for every legal-shape move. FromStr over arbitrary strings is a bounded stand-in (all UTF-8 strings of <= 4/6/8 bytes, longer than the longest accepted text) and is not counted as proved.",
        design_ref="5/C19",
        note="trusted: Kani/CBMC/CaDiCaL, extraction E1; string quantifier bounded by byte length (stated per obligation); core::str::from_utf8 / chars() / core::fmt are executed from the real core sources",
        technique="function contracts (pre/post) on the real coordinate/text functions, Kani/CBMC full-domain; bounded harnesses for FromStr"),
}

_todo = "not yet covered by this revision of the machinery (work in progress; see DESIGN.md section 5 for the planned obligations)"
NOT_APPLICABLE = {p: _todo for p in
                  ["C01", "C02", "C03", "C04", "C05", "C06", "C07", "C08", "C09", "C10", "C11", "C12", "C13", "C14", "C15",
                   "C16", "C17", "C20"]}
