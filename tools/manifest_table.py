NOTES = ("Technique family: contract-based deductive verification of the real code. Every check rebuilds from /repo's "
         "working tree (scratch copy + injected #[cfg(kani)] modules), exit 0/1/2 as described in DESIGN.md section 2.")

CLAIMED = {
    "C18": dict(
        category="proof",
        text="Every BitBoard operation is verified against element-wise set semantics by loop-free Kani harnesses over unconstrained 64-bit words (full domain = complete proof); iteration and subset iteration are verified as step contracts on the real `next` functions, the whole-sequence statements follow by a two-line induction. FromIterator is a bounded stand-in (<= 4 squares) and is not counted as proved.",
        design_ref="5/C18",
        note="trusted: Kani/CBMC/CaDiCaL, extraction E1; paper lemmas L-iter and L-subsets (induction over step contracts); collect bounded to 4 elements",
        technique="function contracts (pre/post) on the real BitBoard methods, discharged by Kani/CBMC over the full 2^64 (x2^64) domain; iterator step contracts + induction lemma"),
    "C19": dict(
        category="proof",
        text="Coordinate construction/decomposition/flips/relative views and try_offset are verified against plain coordinate arithmetic by loop-free full-domain Kani harnesses (64 squares x 256 x 256 offsets; CBMC's overflow checks on every arithmetic operation decide 'same answer with and without overflow checks'); char conversions over the whole char domain; Display of Square/File/Rank/Piece/Color/Move is verified through the REAL core::fmt machinery into a fixed buffer, and parse(format(m)) == m for every legal-shape move. FromStr over arbitrary strings is a bounded stand-in (all UTF-8 strings of <= 4/6/8 bytes, longer than the longest accepted text) and is not counted as proved.",
        design_ref="5/C19",
        note="trusted: Kani/CBMC/CaDiCaL, extraction E1; string quantifier bounded by byte length (stated per obligation); core::str::from_utf8 / chars() / core::fmt are executed from the real core sources",
        technique="function contracts (pre/post) on the real coordinate/text functions, Kani/CBMC full-domain; bounded harnesses for FromStr"),
    "C17": dict(
        category="proof",
        text="len, is_empty and has of a move batch are verified against the closed-form enumeration (one plain move per destination, the four promotions N,B,R,Q for pawn destinations on rank 1/8) by loop-free Kani harnesses over all 6 pieces x 64 origins x 2^64 destination sets x all 64*64*7 queried moves; iteration is verified as a step contract on the real PieceMovesIter::next under the iterator's state invariant (returns the head of the pending enumeration, leaves exactly the tail, exact remaining length, unreachable!() unreachable); 'every destination exactly once' follows by induction on the remaining length.",
        design_ref="5/C17",
        note="trusted: Kani/CBMC/CaDiCaL, extraction E1, the oracle's batch_has/batch_len (10 lines), induction lemma L-batch",
        technique="function contracts on PieceMoves::{len,is_empty,has} and a step contract + state invariant on PieceMovesIter::next, Kani/CBMC full-domain"),
    "C05": dict(
        category="proof",
        text="Leaper/pawn/ray/between/line tables: table value == geometric definition for every argument (one loop-free Kani query each over the symbolic square(s)/colour/occupancy). Const variants (slow walker): 64 per-square Kani harnesses over all 2^64 occupancies with the walker loops completely unwound. Fast slider lookups, per back end: lemma (a) index ignores irrelevant bits (Kani on the real index functions, PEXT intrinsic replaced by its specification), lemma (b) the geometric definition ignores irrelevant bits (Kani), and (c) an exhaustive finite case analysis over all 107,648 (square, relevant-subset) pairs executed on the real tables of the current tree in both configurations (magic; pext with the real BMI2 instruction). Together: lookup == definition for all 64 x 2^64 arguments.",
        design_ref="5/C05",
        note="trusted: Kani/CBMC/CaDiCaL; PEXT hardware semantics (Intel SDM gather model) and extraction edit E4; the composition lemma L-slider (three machine-checked parts, one line of equational reasoning); part (c) is exhaustive evaluation, not a SAT proof",
        technique="function contracts (result == spec function of the arguments) on the real lookup functions, Kani/CBMC full-domain; slider tables by two machine-checked lemmas + exhaustive finite case analysis"),
}

_todo = "not yet covered by this revision of the machinery (work in progress; see DESIGN.md section 5 for the planned obligations)"
NOT_APPLICABLE = {p: _todo for p in
                  ["C01", "C02", "C03", "C04", "C06", "C07", "C08", "C09", "C10", "C11", "C12", "C13", "C14", "C15",
                   "C16", "C20"]}
