"""non-Kani back ends: exhaustive native case analyses and Verus units"""
import json
import os
import re
import shutil
import subprocess
import time

VERIF = os.path.dirname(os.path.dirname(os.path.abspath(__file__)))
ENV = dict(os.environ, CARGO_NET_OFFLINE="true", CARGO_TERM_COLOR="never")
_built = {}


def build_native(scratch, features):
    key = (scratch, tuple(features))
    if key in _built:
        return _built[key]
    nd = os.path.join(scratch, "vnative")
    if not os.path.exists(nd):
        shutil.copytree(os.path.join(VERIF, "native", "src"), os.path.join(nd, "src"))
        shutil.copy(os.path.join(VERIF, "native", "Cargo.toml.in"), os.path.join(nd, "Cargo.toml"))
        # the oracle is shared text
        os.makedirs(os.path.join(scratch, "vinj"), exist_ok=True)
        if not os.path.exists(os.path.join(scratch, "vinj", "chess_spec.rs")):
            shutil.copy(os.path.join(VERIF, "spec", "chess_spec.rs"), os.path.join(scratch, "vinj", "chess_spec.rs"))
    env = dict(ENV)
    cmd = ["cargo", "build", "--release", "--offline", "--target-dir", os.path.join(nd, "target-" + "-".join(features or ["default"]))]
    if features:
        cmd += ["--features", ",".join(features)]
    env["RUSTFLAGS"] = "--cfg verif_dump" + (" -C target-feature=+bmi2" if "pext" in features else "")
    p = subprocess.run(cmd, cwd=nd, env=env, stdout=subprocess.PIPE, stderr=subprocess.STDOUT, text=True, timeout=1800)
    exe = os.path.join(nd, "target-" + "-".join(features or ["default"]), "release", "verif-native")
    _built[key] = (p.returncode == 0 and os.path.exists(exe), exe, p.stdout)
    return _built[key]


def run_native(scratch, o, tier, seed):
    t0 = time.time()
    ok, exe, out = build_native(scratch, list(o["features"]))
    if not ok:
        return dict(status="build-failed", checks=0, failed=[], solver_s=0.0, wall_s=round(time.time() - t0, 1),
                    covers=(0, 0), output=out[-3000:])
    args = o["harness"].split()
    try:
        p = subprocess.run([exe] + args, stdout=subprocess.PIPE, stderr=subprocess.STDOUT, text=True, timeout=o["timeout"],
                           env=dict(ENV, VERIF_SEED=str(seed)))
        out2, rc = p.stdout, p.returncode
    except subprocess.TimeoutExpired as e:
        return dict(status="timeout", checks=0, failed=[], solver_s=0.0, wall_s=round(time.time() - t0, 1), covers=(0, 0),
                    output=(e.stdout or "")[-2000:])
    last = [l for l in out2.splitlines() if l.startswith("{")]
    if not last:
        # a panic in the real code (e.g. index out of bounds) is a failure of the obligation
        status = "failed" if "panicked at" in out2 else "tool-error"
        return dict(status=status, checks=0, failed=[dict(description=out2[-500:], status="Failure", location=None)],
                    solver_s=0.0, wall_s=round(time.time() - t0, 1), covers=(0, 0), output=out2[-3000:], witness=out2[-500:],
                    replay_cmd=" ".join([exe] + args))
    res = json.loads(last[-1])
    status = "proved" if res.get("ok") else "failed"
    failed = [] if res.get("ok") else [dict(description=str(res.get("witness")), status="Failure", location=None)]
    return dict(status=status, checks=int(res.get("cases", 0)), failed=failed, solver_s=0.0, wall_s=round(time.time() - t0, 1),
                covers=(0, 0), output=out2[-3000:], witness=res.get("witness"), exhaustive=True,
                replay_cmd="(rebuild /verif/native against the tree and run) verif-native " + " ".join(args))


def run(scratch, o, tier, seed):
    if o["backend"] == "native":
        return run_native(scratch, o, tier, seed)
    if o["backend"] == "verus":
        import verus_backend
        return verus_backend.run(scratch, o, tier, seed)
    raise ValueError(o["backend"])
