#!/usr/bin/env python3
"""Mechanical extraction of /repo into a scratch copy that Kani / the native tools can build.

The copy is verbatim except for the edits listed below, every one of which is logged into
<scratch>/EXTRACTION.log (and summarised in the evidence files):

  E1  append  `#[cfg(kani)] #[path = ".../kani/<x>.rs"] mod <name>;`  lines to a fixed list of source files
      (child modules see private items of their ancestors; no visibility is changed, no function text
      is touched).
  E2  loop-cut rewrite of the `for x in <bitboard> { body }` loops listed in tools/loops.json
      (see DESIGN.md section 4).  The body is kept verbatim.
  E3  `write!` shadow: a `#[cfg(kani)] macro_rules! write` is prepended to the files whose Display
      impls are verified (see DESIGN.md section 6).

If an anchor is not found the extraction raises AnchorLost -> the check exits 2 (undecided), never 1.
"""
import json
import os
import re
import shutil
import subprocess
import tempfile

VERIF = os.path.dirname(os.path.dirname(os.path.abspath(__file__)))
REPO = os.environ.get("VERIF_REPO", "/repo")


class AnchorLost(Exception):
    pass


NOTES = []
# cut loops whose body assigns function locals the loop spec does not declare: those locals are havoced
# without an invariant (sound over-approximation, but imprecise: a failure of such a VC only counts when the
# counterexample reproduces on the real loops - see `check`)
WEAK_FRAMES = []


# (file relative to repo root, module name, harness file relative to /verif/kani)
INJECT = [
    ("types/src/lib.rs", "chess_spec", "../spec/chess_spec.rs"),
    ("types/src/lib.rs", "verif_types", "types_root.rs"),
    ("types/src/bitboard.rs", "verif_bitboard", "types_bitboard.rs"),
    ("types/src/sliders/magic.rs", "verif_magic", "types_magic.rs"),
    ("types/src/sliders/pext.rs", "verif_pext", "types_pext.rs"),
    ("cozy-chess/src/lib.rs", "chess_spec", "../spec/chess_spec.rs"),
    ("cozy-chess/src/lib.rs", "verif_common", "cc_common.rs"),
    ("cozy-chess/src/moves.rs", "verif_moves", "cc_moves.rs"),
    ("cozy-chess/src/board/zobrist.rs", "verif_zobrist", "cc_zobrist.rs"),
    ("cozy-chess/src/board/mod.rs", "verif_board", "cc_board.rs"),
    ("cozy-chess/src/board/validate.rs", "verif_validate", "cc_validate.rs"),
    ("cozy-chess/src/board/movegen/mod.rs", "verif_movegen", "cc_movegen.rs"),
    ("cozy-chess/src/board/movegen/piece_moves.rs", "verif_piece_moves", "cc_piece_moves.rs"),
    ("cozy-chess/src/board/builder.rs", "verif_builder", "cc_builder.rs"),
    ("cozy-chess/src/board/parse.rs", "verif_parse", "cc_parse.rs"),
    ("cozy-chess/src/util/mod.rs", "verif_util", "cc_util.rs"),
]


# --------------------------------------------------------------------------------------------
# tiny Rust lexer helpers: enough to brace-match real code (comments, strings, chars, lifetimes)

def _skip_ws_tokens(src, i):
    """return index after a comment/string/char literal starting at i, or i if none starts here"""
    n = len(src)
    if src.startswith("//", i):
        j = src.find("\n", i)
        return n if j < 0 else j
    if src.startswith("/*", i):
        depth, j = 1, i + 2
        while j < n and depth:
            if src.startswith("/*", j):
                depth += 1
                j += 2
            elif src.startswith("*/", j):
                depth -= 1
                j += 2
            else:
                j += 1
        return j
    if src[i] == '"':
        j = i + 1
        while j < n and src[j] != '"':
            j += 2 if src[j] == "\\" else 1
        return j + 1
    if src[i] == "r" and re.match(r'r#*"', src[i:i + 8] or ""):
        m = re.match(r'r(#*)"', src[i:])
        close = '"' + m.group(1)
        j = src.find(close, i + len(m.group(0)))
        return n if j < 0 else j + len(close)
    if src[i] == "'":
        # char literal or lifetime
        m = re.match(r"'(\\.[^']*|[^\\'])'", src[i:])
        if m:
            return i + len(m.group(0))
        return i + 1
    return i


def match_brace(src, open_idx):
    """index of the `}` matching the `{` at open_idx"""
    assert src[open_idx] == "{"
    depth, i, n = 0, open_idx, len(src)
    while i < n:
        j = _skip_ws_tokens(src, i)
        if j != i:
            i = j
            continue
        ch = src[i]
        if ch == "{":
            depth += 1
        elif ch == "}":
            depth -= 1
            if depth == 0:
                return i
        i += 1
    raise AnchorLost("unbalanced braces")


def find_fn(src, name, start=0):
    """(sig_start, body_open, body_close) of `fn name` (first occurrence after start)"""
    for m in re.finditer(r"\bfn\s+" + re.escape(name) + r"\b", src[start:]):
        s = start + m.start()
        # make sure we are not inside a comment line
        line_start = src.rfind("\n", 0, s) + 1
        if src[line_start:s].lstrip().startswith("//"):
            continue
        i = start + m.end()
        n = len(src)
        depth = 0
        while i < n:
            j = _skip_ws_tokens(src, i)
            if j != i:
                i = j
                continue
            ch = src[i]
            if ch in "(<[":
                depth += 1
            elif ch in ")>]":
                # `->` is not a closing bracket
                if not (ch == ">" and src[i - 1] == "-"):
                    depth -= 1
            elif ch == ";" and depth <= 0:
                break  # declaration without body
            elif ch == "{" and depth <= 0:
                return s, i, match_brace(src, i)
            i += 1
    raise AnchorLost(f"fn {name} not found")


def find_for_loops(src, lo, hi):
    """list of (for_start, pat, iter_expr, body_open, body_close) for every `for .. in .. {` whose
    keyword lies in src[lo:hi], in textual order (nested loops included)"""
    out = []
    i = lo
    while i < hi:
        j = _skip_ws_tokens(src, i)
        if j != i:
            i = j
            continue
        m = re.match(r"\bfor\s+", src[i:i + 8])
        if m and (i == 0 or not (src[i - 1].isalnum() or src[i - 1] == "_")):
            # pattern up to ` in `
            k = i + len(m.group(0))
            m2 = re.compile(r"\s+in\s+").search(src, k)
            if not m2:
                raise AnchorLost("for without in")
            pat = src[k:m2.start()]
            e = m2.end()
            # iterator expression up to the `{` at bracket depth 0
            depth, p = 0, e
            while p < hi:
                q = _skip_ws_tokens(src, p)
                if q != p:
                    p = q
                    continue
                ch = src[p]
                if ch in "([":
                    depth += 1
                elif ch in ")]":
                    depth -= 1
                elif ch == "{" and depth == 0:
                    break
                p += 1
            body_open = p
            body_close = match_brace(src, body_open)
            out.append((i, pat.strip(), src[e:body_open].strip(), body_open, body_close))
            i = body_open + 1
            continue
        i += 1
    return out


# --------------------------------------------------------------------------------------------
# E2: loop-cut rewrite

ASSIGN_RE = re.compile(
    r"(?<![=!<>+\-*/%&|^])(\+=|-=|\*=|/=|%=|&=|\|=|\^=|<<=|>>=|=)(?!=)")


def assigned_targets(body):
    """syntactic over-approximation of what a loop body may modify: left-hand sides of assignment
    operators (outside `let`), `&mut <expr>` borrows, and calls of the form `<callee>(` whose callee is
    a plain identifier (closure calls).  Returned as a set of root identifiers / paths."""
    targets = set()
    # strip comments and strings
    clean = []
    i = 0
    while i < len(body):
        j = _skip_ws_tokens(body, i)
        if j != i:
            clean.append(" ")
            i = j
        else:
            clean.append(body[i])
            i += 1
    clean = "".join(clean)
    for m in ASSIGN_RE.finditer(clean):
        before = clean[:m.start()]
        # `=>` of a match arm is not an assignment
        if clean[m.start():m.start() + 2] == "=>":
            continue
        # statement start: last delimiter before the operator
        k = max(before.rfind(";"), before.rfind("{"), before.rfind("}"), before.rfind(","), before.rfind("=>") + 1)
        seg = before[k + 1:].strip()
        if re.match(r"^(let\b|if\s+let\b|while\s+let\b|else\s+if\s+let\b)", seg):
            continue  # a new binding scoped to the body
        mm = re.search(r"([A-Za-z_][A-Za-z0-9_\.\[\]\*]*)\s*$", seg)
        targets.add(re.sub(r"\s+", "", mm.group(1)) if mm else seg)
    for m in re.finditer(r"&mut\s+([A-Za-z_][A-Za-z0-9_\.]*)", clean):
        targets.add(m.group(1))
    return targets


def cut_loops_in_fn(src, fname, specs):
    """rewrite the listed loops of one function (ordinals refer to the ORIGINAL text); returns new source"""
    fs, fo, fc = find_fn(src, fname)
    loops = find_for_loops(src, fo, fc)
    repl = []
    for spec in specs:
        want = spec["ordinal"]
        # preferred anchor: the unique loop of the function that iterates over the expected expression (robust
        # against loops being added elsewhere in the function); fallback: ordinal + number of loops
        norm = lambda t: re.sub(r"\s+", " ", t)
        by_iter = [i for i, l in enumerate(loops) if "expect_iter" in spec and norm(l[2]) == spec["expect_iter"]]
        same_iter_specs = [sp2 for sp2 in specs if sp2.get("expect_iter") == spec.get("expect_iter")]
        if len(by_iter) == len(same_iter_specs) and by_iter:
            # (several cut loops of one function may share an iterator expression: keep their relative order)
            rank = sorted(same_iter_specs, key=lambda sp2: sp2["ordinal"]).index(spec)
            want = by_iter[rank]
        else:
            if "expect_loops" in spec and len(loops) != spec["expect_loops"]:
                raise AnchorLost(
                    f"{spec['id']}: fn {fname} has {len(loops)} for-loops, expected {spec['expect_loops']}")
            if want >= len(loops):
                raise AnchorLost(f"{spec['id']}: loop #{want} not found in fn {fname}")
        start, pat, it, bo, bc = loops[want]
        if "expect_iter" in spec and re.sub(r"\s+", " ", it) != spec["expect_iter"]:
            # the hooks are generic in the iterated set (they receive its value), so a changed iterator
            # expression is still cut; it is only noted in the extraction log
            NOTES.append(f"E2 note {spec['id']}: loop now iterates over `{re.sub(chr(92) + 's+', ' ', it)}` (was `{spec['expect_iter']}`)")
        body = src[bo + 1:bc]
        # modifies scan: everything the body may assign must be declared
        declared = set(spec.get("modifies", [])) | set(spec.get("ghost_calls", []))
        found = assigned_targets(body)
        undeclared = {t for t in found if t not in declared}
        weak = sorted(t for t in undeclared if re.fullmatch(r"[A-Za-z_][A-Za-z0-9_]*", t) and t != "self")
        if undeclared - set(weak):
            raise AnchorLost(f"{spec['id']}: loop body modifies undeclared target(s) {sorted(undeclared)}")
        if weak:
            # plain function locals (e.g. an accumulator added by a refactor): havoc them with no invariant
            WEAK_FRAMES.append(spec["id"])
            NOTES.append(f"E2 weak frame {spec['id']}: loop body assigns undeclared local(s) {weak}; havoced without invariant, failures of VCs through this loop count only when replayed on the real loops")
        weak_havoc = "".join("    crate::verif_common::havoc_local(&mut " + t + ");\n" for t in weak)
        hook = spec["hook"]
        ctx = ", ".join(spec.get("context", []))
        mods = ", ".join("&mut " + m for m in spec.get("modifies_args", spec.get("modifies", [])))
        ctx_sep = (", " + ctx) if ctx else ""
        mods_sep = (", " + mods) if mods else ""
        # `break` inside the body leaves the loop: the arbitrary iteration then continues with the code
        # after the loop (no invariant to re-establish).  Only supported when the body has no nested loop.
        body_cut = body
        has_break = re.search(r"\bbreak\b", body) is not None
        if has_break:
            if re.search(r"\b(for|while|loop)\b", body):
                raise AnchorLost(f"{spec['id']}: `break` in a loop body with nested loops is not supported")
            body_cut = re.sub(r"\bbreak\b(\s*;)?", "{ __brk = true; break; }", body)
        new = (
            "{ let __set: BitBoard = " + it + ";\n"
            "#[cfg(kani)] let __cut = " + hook + "::active();\n"
            "#[cfg(not(kani))] let __cut = false;\n"
            "if __cut {\n"
            "#[cfg(kani)] {\n"
            "    " + hook + "::init(__set" + ctx_sep + mods_sep + ");\n"
            "    let __rem: BitBoard = " + hook + "::havoc(__set" + ctx_sep + mods_sep + ");\n"
            + weak_havoc +
            "    if !__rem.is_empty() {\n"
            "        let __x: Square = __rem.next_square().unwrap();\n"
            "        let mut __once = true;\n"
            "        #[allow(unused_mut, unused_assignments)] let mut __brk = false;\n"
            "        while __once { __once = false; let " + pat + " = __x; {" + body_cut + "} }\n"
            "        if !__brk { " + hook + "::step(__set, __rem, __x" + ctx_sep + mods_sep + "); }\n"
            "    }\n"
            "}\n"
            "} else { for " + pat + " in __set {" + body + "} }\n"
            "}"
        )
        repl.append((start, bc + 1, new))
    repl.sort()
    for (a, b, _), (c, d, _) in zip(repl, repl[1:]):
        if c < b:
            raise AnchorLost(f"fn {fname}: nested cut loops are not supported")
    for a, b, new in reversed(repl):
        src = src[:a] + new + src[b:]
    return src


# --------------------------------------------------------------------------------------------

def make_scratch(prefix="verif-scratch-", log=None, cut=True, repo=None):
    """rsync the repository into a fresh directory and apply E1..E3; returns the directory"""
    repo = repo or REPO
    base = os.environ.get("VERIF_SCRATCH_BASE", "/var/tmp")
    os.makedirs(base, exist_ok=True)
    d = tempfile.mkdtemp(prefix=prefix, dir=base)
    del WEAK_FRAMES[:]
    subprocess.run(
        ["rsync", "-a", "--exclude", "/target", "--exclude", "/.git", repo.rstrip("/") + "/", d + "/"],
        check=True)
    lines = []
    try:
        # E2 first (anchors refer to the original text)
        if cut:
            loops = json.load(open(os.path.join(VERIF, "tools", "loops.json")))
            by_file = {}
            for sp in loops:
                by_file.setdefault(sp["file"], []).append(sp)
            for f, specs in by_file.items():
                path = os.path.join(d, f)
                if not os.path.exists(path):
                    raise AnchorLost(f"E2: file {f} missing")
                src = open(path).read()
                by_fn = {}
                for sp in specs:
                    by_fn.setdefault(sp["function"], []).append(sp)
                for fname, sps in by_fn.items():
                    src = cut_loops_in_fn(src, fname, sps)
                    for sp in sps:
                        lines.append(f"E2 loop-cut {sp['id']}: {f} fn {fname} loop #{sp['ordinal']}")
                open(path, "w").write(src)
        # E3: write! shadow
        shadow = json.load(open(os.path.join(VERIF, "tools", "shadow.json")))
        for f, macro_path in shadow.items():
            path = os.path.join(d, f)
            if not os.path.exists(path):
                raise AnchorLost(f"E3: file {f} missing")
            src = open(path).read()
            inj = ("#[cfg(kani)] #[allow(unused_macros)] macro_rules! write { ($($t:tt)*) => { " + macro_path +
                   "!($($t)*) } }\n")
            # keep inner attributes / doc comments at the very top
            m = re.match(r"((?:\s*(?://!.*|#!\[.*\])\n)*)", src)
            src = src[:m.end()] + inj + src[m.end():]
            open(path, "w").write(src)
            lines.append(f"E3 write!-shadow: {f}")
        # E4 (PEXT configuration under Kani only): cargo-kani offers no way to pass
        # `-C target-feature=+bmi2`, so the compile-time gate in types/src/sliders/pext.rs is made
        # conditional on not(kani).  Nothing else is touched; the intrinsic call itself is replaced by
        # its specification with #[kani::stub] inside the harness (trusted hardware semantics).
        pf = os.path.join(d, "types/src/sliders/pext.rs")
        if os.path.exists(pf):
            src = open(pf).read()
            gate = '#[cfg(not(all(target_arch = "x86_64", target_feature = "bmi2")))]\ncompile_error!'
            if gate in src:
                src = src.replace(gate, '#[cfg(all(not(kani), not(all(target_arch = "x86_64", target_feature = "bmi2"))))]\ncompile_error!')
                open(pf, "w").write(src)
                lines.append("E4 pext compile-time gate made conditional on not(kani): types/src/sliders/pext.rs")
        # E5: the stacked #[kani::stub] attributes of the board-level harnesses exceed rustc's default
        # macro recursion limit; raise it for Kani builds only (crate attribute, no code touched)
        for f in ("cozy-chess/src/lib.rs", "types/src/lib.rs"):
            path = os.path.join(d, f)
            if not os.path.exists(path):
                raise AnchorLost(f"E5: file {f} missing")
            src = open(path).read()
            open(path, "w").write('#![cfg_attr(kani, recursion_limit = "1024")]\n' + src)
            lines.append(f"E5 recursion_limit (kani only): {f}")
        # E6: read-only accessor for the private Zobrist key table, compiled only with `--cfg verif_dump`
        # (used by /verif/native to dump the real keys for the verified independence checker, C11)
        zf = os.path.join(d, "cozy-chess/src/board/zobrist.rs")
        bf = os.path.join(d, "cozy-chess/src/board/mod.rs")
        if not (os.path.exists(zf) and os.path.exists(bf)):
            raise AnchorLost("E6: zobrist.rs / board/mod.rs missing")
        with open(zf, "a") as fh:
            fh.write("""
/// (verification only) every entry of the Zobrist key table, each exactly once
#[cfg(verif_dump)]
pub fn verif_dump_keys() -> ([u64; 2 * 6 * 64 + 2 * 8 + 8 + 1], usize) {
    let z = &ZOBRIST;
    let mut out = [0u64; 2 * 6 * 64 + 2 * 8 + 8 + 1];
    let mut n = 0;
    for c in 0..Color::NUM { for p in 0..Piece::NUM { for s in 0..Square::NUM { out[n] = z.color[c].pieces[p][s]; n += 1; } } }
    for c in 0..Color::NUM { for f in 0..File::NUM { out[n] = z.color[c].castle_rights[f]; n += 1; } }
    for f in 0..File::NUM { out[n] = z.en_passant[f]; n += 1; }
    out[n] = z.black_to_move; n += 1;
    (out, n)
}
""")
        with open(bf, "a") as fh:
            fh.write("\n#[cfg(verif_dump)] pub use zobrist::verif_dump_keys;\n")
        lines.append("E6 key-table accessor behind cfg(verif_dump): cozy-chess/src/board/zobrist.rs, board/mod.rs")
        # E1
        for f, name, harness in INJECT:
            path = os.path.join(d, f)
            if not os.path.exists(path):
                raise AnchorLost(f"E1: file {f} missing")
            src_hp = os.path.normpath(os.path.join(VERIF, "kani", harness))
            if not os.path.exists(src_hp):
                continue
            # harness / spec files are copied into the scratch directory (so that Kani's in-place
            # concrete-playback editing never touches /verif)
            os.makedirs(os.path.join(d, "vinj"), exist_ok=True)
            hp = os.path.join(d, "vinj", os.path.basename(src_hp))
            if not os.path.exists(hp):
                shutil.copy(src_hp, hp)
            with open(path, "a") as fh:
                fh.write(f'\n#[cfg(kani)] #[path = "{hp}"] #[allow(missing_docs, dead_code, unused)] pub(crate) mod {name};\n')
            lines.append(f"E1 inject mod {name} -> {f}")
        shutil.copy("/repo/Cargo.lock", os.path.join(d, "Cargo.lock")) if os.path.exists("/repo/Cargo.lock") else None
        os.makedirs(os.path.join(d, ".cargo"), exist_ok=True)
        with open(os.path.join(d, ".cargo", "config.toml"), "w") as fh:
            fh.write("[net]\noffline = true\n")
    except Exception:
        shutil.rmtree(d, ignore_errors=True)
        raise
    lines.extend(NOTES)
    del NOTES[:]
    with open(os.path.join(d, "EXTRACTION.log"), "w") as fh:
        fh.write("\n".join(lines) + "\n")
    if log is not None:
        log.extend(lines)
    return d


if __name__ == "__main__":
    import sys
    d = make_scratch()
    print(d)
    print(open(os.path.join(d, "EXTRACTION.log")).read())
