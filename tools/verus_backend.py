"""Verus units.  C11: verify the independence checker, compile it, execute it on the real key table."""
import json
import os
import re
import shutil
import subprocess
import time

import backends

VERIF = os.path.dirname(os.path.dirname(os.path.abspath(__file__)))
EXPECTED_KEYS = 2 * 6 * 64 + 2 * 8 + 8 + 1


def _res(status, t0, checks=0, failed=None, out="", witness=None):
    return dict(status=status, checks=checks, failed=failed or [], solver_s=0.0, wall_s=round(time.time() - t0, 1),
                covers=(0, 0), output=out[-3000:], witness=witness)


def run(scratch, o, tier, seed):
    t0 = time.time()
    unit = o["harness"]
    wd = os.path.join(scratch, "vverus")
    os.makedirs(wd, exist_ok=True)
    src = os.path.join(wd, os.path.basename(unit))
    shutil.copy(os.path.join(VERIF, "verus", unit), src)
    env = dict(os.environ)
    # 1. verify
    p = subprocess.run(["verus", src, "--output-json", "--time"], cwd=wd, stdout=subprocess.PIPE, stderr=subprocess.PIPE,
                       text=True, timeout=o["timeout"], env=env)
    try:
        j = json.loads(p.stdout)
        vr = j.get("verification-results", {})
        verified, errors = int(vr.get("verified", 0)), int(vr.get("errors", 0))
        ok = bool(vr.get("success")) and errors == 0 and verified > 0
    except Exception:
        return _res("tool-error", t0, out=p.stdout + p.stderr)
    if not ok:
        return _res("failed", t0, checks=verified, failed=[dict(description="Verus: %d errors" % errors, status="Failure", location=None)],
                    out=p.stdout + p.stderr)
    if unit != "indep4.rs":
        return _res("proved", t0, checks=verified, out=p.stdout)
    # 2. compile the verified checker
    exe = os.path.join(wd, "indep4")
    p2 = subprocess.run(["verus", src, "--compile", "-C", "opt-level=3", "-o", exe], cwd=wd, stdout=subprocess.PIPE,
                        stderr=subprocess.STDOUT, text=True, timeout=o["timeout"], env=env)
    if not os.path.exists(exe):
        return _res("tool-error", t0, out=p2.stdout)
    # 3. dump the real key table of the current tree and run the verified checker on it
    okb, nexe, nout = backends.build_native(scratch, [])
    if not okb:
        return _res("build-failed", t0, out=nout)
    keys = subprocess.run([nexe, "keys"], stdout=subprocess.PIPE, stderr=subprocess.STDOUT, text=True, timeout=120).stdout
    kf = os.path.join(wd, "keys.txt")
    open(kf, "w").write(keys)
    p3 = subprocess.run([exe, kf], stdout=subprocess.PIPE, stderr=subprocess.STDOUT, text=True, timeout=o["timeout"])
    last = [l for l in p3.stdout.splitlines() if l.startswith("{")]
    if not last:
        return _res("tool-error", t0, out=p3.stdout)
    r = json.loads(last[-1])
    if r.get("keys") != EXPECTED_KEYS:
        return _res("failed", t0, checks=verified, out=p3.stdout, witness="key table has %s entries, expected %d" % (r.get("keys"), EXPECTED_KEYS),
                    failed=[dict(description="key table has %s entries, expected %d" % (r.get("keys"), EXPECTED_KEYS), status="Failure", location=None)])
    if r.get("indep4") is True:
        res = _res("proved", t0, checks=verified, out=p3.stdout)
        res["keys"] = r["keys"]
        return res
    w = subprocess.run([nexe, "indep-witness"], stdout=subprocess.PIPE, stderr=subprocess.STDOUT, text=True, timeout=600).stdout
    res = _res("failed", t0, checks=verified, out=p3.stdout + w, witness=w.strip().splitlines()[-1] if w.strip() else None,
               failed=[dict(description="a XOR of at most 4 distinct Zobrist keys is zero: " + w.strip()[-200:], status="Failure", location=None)])
    res["replay_cmd"] = "verif-native indep-witness (rebuild /verif/native against the tree with --cfg verif_dump)"
    return res
