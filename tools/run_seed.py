#!/usr/bin/env python3
"""run a check against a seeded change: tools/run_seed.py <seeded/dir> <PROP> [--only regex] [--tier t]
(the change is applied to a scratch copy of /repo; /repo itself is not touched)"""
import os, subprocess, sys, tempfile, shutil
VERIF = os.path.dirname(os.path.dirname(os.path.abspath(__file__)))
seed, prop, rest = sys.argv[1], sys.argv[2], sys.argv[3:]
d = tempfile.mkdtemp(prefix="verif-seed-", dir="/var/tmp")
try:
    subprocess.run(["rsync", "-a", "--exclude", "/target", "--exclude", "/.git", "/repo/", d + "/"], check=True)
    r = subprocess.run(["patch", "-p1", "-s", "-i", os.path.abspath(os.path.join(seed, "patch.diff"))], cwd=d)
    if r.returncode != 0:
        print("patch does not apply"); sys.exit(3)
    r = subprocess.run([os.path.join(VERIF, "check"), prop] + rest, env=dict(os.environ, VERIF_REPO=d))
    sys.exit(r.returncode)
finally:
    shutil.rmtree(d, ignore_errors=True)
