#!/usr/bin/env python3
"""Mutation self-test (DESIGN.md section 8): each one-line semantic mutation is applied to a scratch copy
of /repo and the named obligations must turn red (exit 1), the rest of the machinery being unchanged.
usage: tools/selftest.py [name-regex]"""
import os, re, shutil, subprocess, sys, tempfile, json, time
VERIF = os.path.dirname(os.path.dirname(os.path.abspath(__file__)))
M = [
 # name, file, old, new, property, --only regex, must_fail regex (obligation names)
 ("play.ep-victim-stays", "cozy-chess/src/board/mod.rs",
  "self.inner.xor_square(Piece::Pawn, !color, victim_square);", "let _ = victim_square;", "C02", "pawn", r"O-C02\.play\.pawn"),
 ("play.capture-keeps-long-right", "cozy-chess/src/board/mod.rs",
  "} else if Some(mv.to.file()) == rights.long {\n                        self.inner.set_castle_right(!color, false, None);",
  "} else if Some(mv.to.file()) == rights.long && moved != Piece::Knight {\n                        self.inner.set_castle_right(!color, false, None);", "C02", "knight|bishop", r"O-C02\.play\.knight"),
 ("play.halfmove-cap-off-by-one", "cozy-chess/src/board/mod.rs",
  "            self.halfmove_clock += 1;\n            if self.halfmove_clock > 100 {\n                self.halfmove_clock = 100;\n            }\n        }\n        if color == Color::Black {",
  "            self.halfmove_clock += 1;\n            if self.halfmove_clock > 99 {\n                self.halfmove_clock = 99;\n            }\n        }\n        if color == Color::Black {", "C02", "rook", r"O-C02\.play\.rook"),
 ("play.pins-len2", "cozy-chess/src/board/mod.rs",
  "                0 => self.checkers |= square.bitboard(),\n                1 => self.pinned |= between,\n                _ => {}\n            }\n        }\n        \n        self.inner.toggle_side_to_move();",
  "                0 => self.checkers |= square.bitboard(),\n                1 | 2 => self.pinned |= between,\n                _ => {}\n            }\n        }\n        \n        self.inner.toggle_side_to_move();", "C03", "play.bishop", r"O-C03\.play\.bishop"),
 ("play.knight-promo-check-missing", "cozy-chess/src/board/mod.rs",
  "if promotion == Piece::Knight {\n                            self.checkers |= get_knight_moves(their_king) & mv.to.bitboard();\n                        }", "", "C03", "play.pawn", r"O-C03\.play\.pawn"),
 ("play.castle-keeps-long-right", "cozy-chess/src/board/mod.rs",
  "            self.inner.set_castle_right(color, true, None);\n            self.inner.set_castle_right(color, false, None);\n        } else {",
  "            self.inner.set_castle_right(color, true, None);\n        } else {", "C02", "castle", r"O-C02\.play\.castle"),
 ("null.stale-pins", "cozy-chess/src/board/mod.rs",
  "            board.pinned = BitBoard::EMPTY;\n            let color = board.side_to_move();", "            let color = board.side_to_move();", "C14", "null", r"O-C14\.null"),
 ("movegen.castle-ignores-rook-pin", "cozy-chess/src/board/movegen/mod.rs",
  "        !pinned.has(rook)\n            && (blockers & must_be_empty).is_empty()", "        (blockers & must_be_empty).is_empty()", "C01", "fn.king.0", r"O-C01\.fn\.king\.0"),
 ("movegen.pinned-slider-leaves-line", "cozy-chess/src/board/movegen/mod.rs",
  "                let target_squares = target_squares & get_line_rays(our_king, piece);\n                let moves = P::pseudo_legals(piece, blockers) & target_squares;",
  "                let moves = P::pseudo_legals(piece, blockers) & target_squares;", "C01", "fn.rook.0", r"O-C01\.fn\.rook\.0"),
 ("movegen.ep-loop-ignores-mask", "cozy-chess/src/board/movegen/mod.rs",
  "for piece in get_pawn_attacks(dest, !color) & pieces {", "for piece in get_pawn_attacks(dest, !color) & self.colored_pieces(color, PIECE) {", "C16", "fn.pawn.0", r"O-C16\.fn\.pawn\.0"),
 ("is_legal.queen-through-blocker", "cozy-chess/src/board/movegen/mod.rs",
  "                (target_squares & (get_rook_rays(mv.from) | get_bishop_rays(mv.from))).has(mv.to)\n                    && (get_between_rays(mv.from, mv.to) & self.occupied()).is_empty()",
  "                (target_squares & (get_rook_rays(mv.from) | get_bishop_rays(mv.from))).has(mv.to)\n                    && (get_between_rays(mv.from, mv.to) & self.colors(self.side_to_move())).is_empty()", "C04", "queen", r"O-C04\.is-legal\.queen"),
 ("validate.ep-origin-unchecked", "cozy-chess/src/board/validate.rs",
  "            soft_assert!(!self.occupied().has(ep_source));\n", "", "C06", "en_passant", r"O-C06\.en_passant_is_valid"),
 ("builder.ep-rank-unchecked", "cozy-chess/src/board/builder.rs",
  "            if square.rank() != en_passant_rank {\n                return Err(());\n            }\n            board.inner.set_en_passant", "            board.inner.set_en_passant", "C09", "build", r"O-C09\.build"),
 ("status.stalemate-is-win", "cozy-chess/src/board/mod.rs",
  "        } else if self.checkers().is_empty() {\n            GameStatus::Drawn\n        } else {\n            GameStatus::Won\n        }",
  "        } else if self.checkers().is_empty() && self.halfmove_clock() > 0 {\n            GameStatus::Drawn\n        } else {\n            GameStatus::Won\n        }", "C12", "status.king", r"O-C12\.status\.king"),
 ("zobrist.wrong-colour-key", "cozy-chess/src/board/zobrist.rs",
  "            .color[color as usize]\n            .pieces[piece as usize]", "            .color[(color as usize) ^ (piece as usize & 1)]\n            .pieces[piece as usize]", "C10", "xor_square", r"O-C10\.writer\.xor_square"),
]

def main():
    pat = sys.argv[1] if len(sys.argv) > 1 else "."
    results = []
    for name, f, old, new, prop, only, must in M:
        if not re.search(pat, name):
            continue
        d = tempfile.mkdtemp(prefix="verif-mut-", dir="/var/tmp")
        try:
            subprocess.run(["rsync", "-a", "--exclude", "/target", "--exclude", "/.git", "/repo/", d + "/"], check=True)
            p = os.path.join(d, f)
            src = open(p).read()
            if src.count(old) != 1:
                results.append((name, "ANCHOR-LOST", "")); print(name, "ANCHOR-LOST", src.count(old)); continue
            open(p, "w").write(src.replace(old, new))
            t0 = time.time()
            r = subprocess.run([os.path.join(VERIF, "check"), prop, "--only", only], env=dict(os.environ, VERIF_REPO=d),
                               stdout=subprocess.PIPE, stderr=subprocess.STDOUT, text=True)
            failed = re.findall(r"^\s+(O-\S+)\s+failed", r.stdout, re.M)
            viol = re.findall(r"^VIOLATION .*", r.stdout, re.M)
            ok = r.returncode == 1 and any(re.search(must, x) for x in failed)
            results.append((name, "CAUGHT" if ok else "MISSED", ", ".join(failed)))
            print(f"{name:36s} {'CAUGHT' if ok else 'MISSED'} rc={r.returncode} failed={failed} {time.time()-t0:.0f}s", flush=True)
            for v in viol: print("    ", v)
        finally:
            shutil.rmtree(d, ignore_errors=True)
    bad = [r for r in results if r[1] != "CAUGHT"]
    print(f"selftest: {len(results) - len(bad)}/{len(results)} mutations caught")
    sys.exit(1 if bad else 0)
main()
