#!/bin/sh
# regenerate every evidence file by running the registered quick commands sequentially
cd /verif
for p in C17 C18 C15 C11 C19 C20 C14 C02 C05 C10 C13 C04 C12 C09 C03 C06 C08 C16 C01; do
  echo "=== $p $(date +%H:%M:%S)"
  ./check $p --tier quick 2>&1 | grep -v '^WARNING' | tail -40
  echo "exit=$?"
done
echo "=== done $(date +%H:%M:%S)"
