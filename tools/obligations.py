"""Registry of proof obligations.

Every obligation is one named unit that a back end decides:
  backend = "kani"    : a Kani harness (full path) run on the scratch copy of /repo
  backend = "verus"   : a Verus file (functions re-extracted from the scratch copy)
  backend = "native"  : an exhaustive finite case analysis run by /verif/native on the scratch copy

Fields
  prop      property id
  name      obligation name (appears in evidence, replay files, VIOLATION reports)
  pkg       cargo package (kani)
  harness   full harness path (kani)
  tier      "quick" (run in both tiers) or "thorough" (thorough tier only)
  timeout   seconds (per harness)
  bounded   None, or a string stating the bound (bounded stand-in; never counted as proved)
  fns       real functions under contract in this obligation
  features  extra cargo features ("pext")
  flags     extra kani flags (list)
  cut       True if the harness relies on loop-cut VCs (E2)
  what      one-line description
"""

OBL = []


def ob(prop, name, harness, what, fns, pkg="cozy-chess", tier="quick", timeout=900, bounded=None,
       backend="kani", features=(), flags=(), cut=False, group=None, solver=None, expect_covers=0, should_panic=False):
    OBL.append(dict(prop=prop, name=name, harness=harness, what=what, fns=list(fns), pkg=pkg, tier=tier,
                    timeout=timeout, bounded=bounded, backend=backend, features=tuple(features),
                    flags=tuple(flags), cut=cut, group=group, solver=solver, expect_covers=expect_covers, should_panic=should_panic))


T = "cozy-chess-types"
# Board-level harnesses: CBMC's pointer-validity checks and Kani's per-assertion reachability covers are
# switched off (safe Rust only; panics, overflow, bounds and unwinding checks stay on) - 2-3x faster
BF = ("--no-assertion-reach-checks", "--no-memory-safety-checks")
BB = "bitboard::verif_bitboard::"

# ------------------------------------------------------------------------------------------- C18
ob("C18", "O-C18.has", BB + "c18_has", "membership test == bit test; Square::bitboard is the singleton",
   ["BitBoard::has", "BitBoard::is_disjoint", "Square::bitboard"], pkg=T, timeout=300)
ob("C18", "O-C18.ops", BB + "c18_ops", "| & ^ - ! are union, intersection, symmetric difference, difference, complement (element-wise, all pairs)",
   ["BitBoard::bitor", "BitBoard::bitand", "BitBoard::bitxor", "BitBoard::sub", "BitBoard::not"], pkg=T, timeout=300)
ob("C18", "O-C18.assign", BB + "c18_assign_ops", "assigning forms equal the plain forms",
   ["BitBoard::bitor_assign", "BitBoard::bitand_assign", "BitBoard::bitxor_assign", "BitBoard::sub_assign"], pkg=T, timeout=300)
ob("C18", "O-C18.relations", BB + "c18_relations", "subset / superset / disjoint / empty agree with membership (both directions, witness square for the negative case)",
   ["BitBoard::is_subset", "BitBoard::is_superset", "BitBoard::is_disjoint", "BitBoard::is_empty"], pkg=T, timeout=300)
ob("C18", "O-C18.len", BB + "c18_len", "len == number of member squares", ["BitBoard::len"], pkg=T, timeout=300)
ob("C18", "O-C18.iter.step", BB + "c18_iter_step", "iterator step: lowest member returned, exactly it removed, exact remaining length; IntoIterator/next_square agree",
   ["BitBoardIter::next", "BitBoardIter::len", "BitBoardIter::size_hint", "BitBoard::iter", "BitBoard::into_iter", "BitBoard::next_square"], pkg=T, timeout=300)
ob("C18", "O-C18.subsets.step", BB + "c18_subsets_step", "subset iterator step: returns current subset, advances to the least greater subset, finishes after the full set",
   ["BitBoardSubsetIter::next", "BitBoard::iter_subsets"], pkg=T, timeout=600)
ob("C18", "O-C18.flips", BB + "c18_flips", "flip_ranks / flip_files move each member to the mirrored square and are involutions",
   ["BitBoard::flip_ranks", "BitBoard::flip_files"], pkg=T, timeout=300)
ob("C18", "O-C18.collect.b4", BB + "c18_collect_bounded4", "FromIterator<Square>: collecting up to 4 squares builds their set",
   ["BitBoard::from_iter"], pkg=T, timeout=300, bounded="sequences of at most 4 squares (the fold of core::iter is unwound)")

# ------------------------------------------------------------------------------------------- C19
TR = "verif_types::"
ob("C19", "O-C19.coord.square", TR + "c19_square_coords", "Square/File/Rank construction, decomposition, flips, colour-relative views, coordinate bitboards == plain coordinate arithmetic",
   ["Square::new", "Square::file", "Square::rank", "Square::index", "Square::try_index", "Square::index_const", "Square::flip_file", "Square::flip_rank", "Square::relative_to", "File::flip", "Rank::flip", "Rank::relative_to", "Square::bitboard", "File::bitboard", "Rank::bitboard", "File::adjacent"], pkg=T, timeout=300)
ob("C19", "O-C19.coord.index-total", TR + "c19_try_index_total", "try_index is total over usize: Some(i-th variant) exactly inside the range",
   ["Square::try_index", "File::try_index", "Rank::try_index", "Color::try_index", "Piece::try_index", "Color::not"], pkg=T, timeout=300)
ob("C19", "O-C19.coord.try-offset", TR + "c19_try_offset", "try_offset == coordinate arithmetic for all 64 x 256 x 256 arguments, None exactly off the board, no arithmetic overflow (so identical with overflow checks on and off); offset agrees in range",
   ["Square::try_offset", "Square::offset"], pkg=T, timeout=600)
ob("C19", "O-C19.coord.offset-panics", TR + "c19_offset_panics_off_board", "offset panics when the target is off the board",
   ["Square::offset"], pkg=T, timeout=300, should_panic=True)
ob("C19", "O-C19.char", TR + "c19_char_conversions", "char::from / TryFrom<char> are exact inverses for File, Rank, Piece, Color on the whole char domain",
   ["File::try_from", "Rank::try_from", "Piece::try_from", "Color::try_from", "char::from<File|Rank|Piece|Color>"], pkg=T, timeout=300)
ob("C19", "O-C19.parse.enums.b4", TR + "c19_parse_enums_b4", "FromStr for File/Rank/Piece/Color accepts exactly the one-letter texts",
   ["File::from_str", "Rank::from_str", "Piece::from_str", "Color::from_str"], pkg=T, timeout=900, bounded="all UTF-8 strings of at most 4 bytes")
ob("C19", "O-C19.parse.square.b6", TR + "c19_parse_square_b6", "Square::from_str accepts exactly <file letter><rank digit> and decodes it",
   ["Square::from_str"], pkg=T, timeout=900, bounded="all UTF-8 strings of at most 6 bytes")
ob("C19", "O-C19.parse.move.b8", TR + "c19_parse_move_b8", "Move::from_str accepts exactly <sq><sq>[nbrq] and decodes it; never panics",
   ["Move::from_str"], pkg=T, timeout=1800, bounded="all UTF-8 strings of at most 8 bytes")
ob("C19", "O-C19.display.square", TR + "c19_display_square", "Display for Square through the real core::fmt: file letter + rank digit",
   ["Square::fmt", "File::fmt", "Rank::fmt"], pkg=T, timeout=900)

ob("C19", "O-C19.display.enums", TR + "c19_display_enums", "Display for File/Rank/Piece/Color through the real core::fmt: the one-letter text",
   ["File::fmt", "Rank::fmt", "Piece::fmt", "Color::fmt"], pkg=T, timeout=900)
ob("C19", "O-C19.display.move-roundtrip", TR + "c19_display_move_roundtrip", "Display for Move through the real core::fmt gives <from><to>[letter]; parse(format(m)) == m for every legal-shape move, error for king/pawn promotions",
   ["Move::fmt", "Move::from_str", "Square::fmt", "Square::from_str"], pkg=T, timeout=1800)
# ------------------------------------------------------------------------------------------- C17
PM = "board::movegen::piece_moves::verif_piece_moves::"
ob("C17", "O-C17.len", PM + "c17_len", "len / is_empty agree with the enumeration (4 moves per pawn destination on rank 1/8, 1 otherwise)",
   ["PieceMoves::len", "PieceMoves::is_empty"], timeout=600)
ob("C17", "O-C17.has", PM + "c17_has", "has(m) == the enumeration yields m, for every move value (incl. king/pawn promotions and promotions on non-pawn batches)",
   ["PieceMoves::has"], timeout=600)
ob("C17", "O-C17.iter.step", PM + "c17_iter_step", "PieceMovesIter::next returns the head of the pending enumeration and leaves exactly the tail; exact remaining length; unreachable!() never reached",
   ["PieceMovesIter::next", "PieceMovesIter::len", "PieceMovesIter::size_hint", "PieceMoves::into_iter"], timeout=900)

# ------------------------------------------------------------------------------------------- C05
MV = "moves::verif_moves::"
for nm, fn, what in [
    ("knight", "get_knight_moves", "knight attack table == 8 leaper offsets, all 64 squares"),
    ("king", "get_king_moves", "king attack table == 8 neighbour offsets, all 64 squares"),
    ("pawn_attacks", "get_pawn_attacks", "pawn attack table == two forward diagonals, all (square, colour)"),
    ("pawn_quiets", "get_pawn_quiets", "pawn pushes == single step onto an empty square, double step from the second rank over two empty squares; all (square, colour, occupancy)"),
    ("rays", "get_rook_rays/get_bishop_rays", "empty-board rays == slider attacks on the empty board, all 64 squares"),
    ("between", "get_between_rays", "squares strictly between two aligned squares, empty otherwise; all 64x64 pairs"),
    ("line", "get_line_rays", "full line through two distinct aligned squares, empty otherwise; all 64x64 pairs"),
]:
    ob("C05", "O-C05." + nm.replace("_", "-"), MV + "c05_" + nm, what, [fn], timeout=900)
ob("C05", "O-C05.spec.between-line", MV + "c05_spec_between_line_coordinates", "oracle guard: the oracle's between/line agree with the coordinate (collinearity / segment) definition for all 64x64x64 triples",
   ["(oracle) chess_spec::between", "(oracle) chess_spec::line"], timeout=900)
ob("C05", "O-C05.slider.spec-irrelevant.rook", MV + "c05_spec_irrelevant_rook", "lemma (b): the geometric rook attack set ignores occupancy outside get_rook_relevant_blockers(sq); all squares x 2^64",
   ["get_rook_relevant_blockers"], timeout=1800)
ob("C05", "O-C05.slider.spec-irrelevant.bishop", MV + "c05_spec_irrelevant_bishop", "lemma (b): the geometric bishop attack set ignores occupancy outside get_bishop_relevant_blockers(sq); all squares x 2^64",
   ["get_bishop_relevant_blockers"], timeout=1800)
ob("C05", "O-C05.slider.index-irrelevant.rook", MV + "c05_index_irrelevant_rook", "lemma (a): get_rook_moves_index ignores occupancy outside the relevant blockers; all squares x 2^64",
   ["get_rook_moves_index", "get_magic_index"], timeout=1800)
ob("C05", "O-C05.slider.index-irrelevant.bishop", MV + "c05_index_irrelevant_bishop", "lemma (a): get_bishop_moves_index ignores occupancy outside the relevant blockers; all squares x 2^64",
   ["get_bishop_moves_index", "get_magic_index"], timeout=1800)
for i in range(64):
    ob("C05", "O-C05.slow.sq%02d" % i, MV + "c05_slow_%02d" % i, "const variants (slow walker) == geometric definition for square %d, all 2^64 occupancies (rook and bishop)" % i,
       ["get_rook_moves_const", "get_bishop_moves_const", "get_rook_moves_slow", "get_bishop_moves_slow", "get_slider_moves"], timeout=900,
       )
ob("C05", "O-C05.slider.index-irrelevant.pext", "sliders::pext::verif_pext::c05_pext_index_irrelevant", "lemma (a), PEXT back end: get_rook/bishop_moves_index ignore occupancy outside the relevant blockers and stay below SLIDING_MOVE_TABLE_SIZE; _pext_u64 replaced by its specification (64-step gather)",
   ["get_pext_index", "get_rook_moves_index (pext)", "get_bishop_moves_index (pext)"], pkg=T, features=("pext",), timeout=1800)
ob("C05", "O-C05.slider.table.magic", "sliders", "finite case analysis (c): for every square and every subset s of the relevant blockers (107,648 cases) get_rook_moves/get_bishop_moves(sq, s) == geometric definition (index in bounds); default magic back end",
   ["get_rook_moves", "get_bishop_moves", "get_rook_moves_index", "get_bishop_moves_index", "SLIDING_MOVES (build.rs output)"], backend="native", timeout=600)
ob("C05", "O-C05.slider.table.pext", "sliders", "finite case analysis (c) in the PEXT configuration (--features pext, -C target-feature=+bmi2, real instruction)",
   ["get_rook_moves", "get_bishop_moves", "get_pext_index", "pext_u64", "SLIDING_MOVES (build.rs output)"], backend="native", timeout=600, features=("pext",))

# ------------------------------------------------------------------------------------------- C10
ZB = "board::zobrist::verif_zobrist::"
ob("C10", "O-C10.writer.xor_square", ZB + "c10_xor_square", "xor_square toggles exactly (piece, colour, square) in the two bitboards and XORs exactly KEY(colour, piece, square); every other field unchanged",
   ["ZobristBoard::xor_square"], timeout=900)
ob("C10", "O-C10.writer.set_castle_right", ZB + "c10_set_castle_right", "set_castle_right replaces exactly one right and XORs out the old / in the new key of that colour; every other field unchanged",
   ["ZobristBoard::set_castle_right"], timeout=900)
ob("C10", "O-C10.writer.set_en_passant", ZB + "c10_set_en_passant", "set_en_passant replaces the EP file and XORs out the old / in the new EP key; every other field unchanged",
   ["ZobristBoard::set_en_passant"], timeout=900)
ob("C10", "O-C10.writer.toggle", ZB + "c10_toggle", "toggle_side_to_move flips the side and XORs the side key; every other field unchanged",
   ["ZobristBoard::toggle_side_to_move"], timeout=900)
ob("C10", "O-C10.observers", ZB + "c10_observers", "hash() returns the stored hash; hash_without_ep() == hash of the same position with the EP file cleared; the empty board hashes to 0",
   ["ZobristBoard::hash", "ZobristBoard::hash_without_ep", "ZobristBoard::empty"], timeout=900)
ob("C10", "O-C10.contract-stubs", ZB + "c10_contract_stubs_faithful", "the contract stubs used by board-level hash obligations have exactly the field effect of the real writers",
   ["ZobristBoard::xor_square", "ZobristBoard::set_castle_right", "ZobristBoard::set_en_passant", "ZobristBoard::toggle_side_to_move"], timeout=900)
ob("C10", "O-C10.null", "board::verif_board::c10_null_hash", "after null_move the accumulated key toggles turn the feature set of the position into the feature set of the result (hash stays the position's hash)",
   ["Board::null_move"], timeout=1800, cut=True, flags=BF)
ob("C10", "O-C10.board_is_equal", ZB + "c10_board_is_equal", "board_is_equal compares exactly placement, side to move and castling rights",
   ["ZobristBoard::board_is_equal"], timeout=900)

# ------------------------------------------------------------------------------------------- C14
BD = "board::verif_board::"
ob("C14", "O-C14.null", BD + "c14_null_move", "null_move on every accepted board: None iff in check; otherwise every field == spec_null, checkers empty, pins and hash equal those of a fresh board of the position, result accepted (loop-invariant VCs for the pin loop)",
   ["Board::null_move", "ZobristBoard::toggle_side_to_move", "ZobristBoard::set_en_passant", "Board::king"], timeout=1800, cut=True, expect_covers=2, flags=BF)

# ------------------------------------------------------------------------------------------- play family
KINDS = ["pawn", "knight", "bishop", "rook", "queen", "king", "castle"]
PLAYFNS = ["Board::play_unchecked", "Board::piece_on", "Board::king", "ZobristBoard::xor_square", "ZobristBoard::set_castle_right", "ZobristBoard::set_en_passant", "ZobristBoard::toggle_side_to_move"]
for k in KINDS:
    ob("C02", "O-C02.play." + k, BD + "c02_play_" + k, "play_unchecked of any legal %s move on any accepted board: every position field (8 bitboards, side, 4 rights, EP file, both clocks) == successor prescribed by the rules" % k,
       PLAYFNS, timeout=2400, cut=True, flags=BF)
    ob("C03", "O-C03.play." + k, BD + "c03_play_" + k, "after play_unchecked of any legal %s move: checkers and pins == their definition on the resulting position (loop-invariant VCs for the slider loop)" % k,
       PLAYFNS, timeout=2400, cut=True, flags=BF)
    ob("C06", "O-C06.inv-preserved.play." + k, BD + "c06_play_" + k, "acceptance is inductive: the rule-prescribed successor of an accepted position after a legal %s move is accepted" % k,
       ["(oracle) spec_accept", "(oracle) spec_play", "(oracle) spec_legal"], timeout=2400, flags=BF)
    ob("C10", "O-C10.play." + k, BD + "c10_play_" + k, "after play_unchecked of any legal %s move the accumulated key toggles turn the feature set of the position into that of the successor" % k,
       PLAYFNS, timeout=2400, cut=True, flags=BF)

# ------------------------------------------------------------------------------------------- C01 / C16
MG = "board::movegen::verif_movegen::"
GENFNS = ["Board::generate_moves_for", "Board::add_all_legals", "Board::add_pawn_legals", "Board::add_knight_legals", "Board::add_slider_legals", "Board::add_king_legals", "Board::king_safe_on", "Board::can_castle", "Board::target_squares"]
for k in ["pawn", "knight", "bishop", "rook", "queen", "king", "none"]:
    for m, mt in [(0, "not in check"), (1, "single check"), (2, "double check")]:
        for prop in ("C01", "C16"):
            ob(prop, "O-%s.gen.%s.%d" % (prop, k, m), MG + "c01_gen_%s_%d" % (k, m),
               "generate_moves_for(mask, listener) on every accepted board (%s), query origin holding %s: the query move is delivered exactly once iff it is legal by the rules and its origin is in the mask; batches non-empty, origin in mask, piece correct; no call after abort, return value == aborted; <= 1 ordinary + 1 en-passant batch per origin" % (mt, "an own " + k if k != "none" else "no own piece"),
               GENFNS, timeout=3600, cut=True, flags=BF,
               tier="quick" if (prop == "C01" or (k, m) in (("pawn", 0), ("rook", 1), ("king", 0), ("none", 2))) else "thorough")


def for_property(prop, tier):
    out = []
    for o in OBL:
        if o["prop"] != prop:
            continue
        if o["tier"] == "thorough" and tier != "thorough":
            continue
        out.append(o)
    return out


# paper lemmas / dependency notes per property (copied into evidence)
LEMMAS = {
    "C18": ["L-iter: from O-C18.iter.step by induction on len(): iteration yields the members in ascending order, each exactly once, "
            "with exact remaining length", "L-subsets: from O-C18.subsets.step by induction: every subset exactly once in increasing numeric order "
            "(the sequence starts at the least subset 0, each step is the numeric successor among subsets, and it stops after the greatest subset)"],
}

LEMMAS["C17"] = ["L-batch: from O-C17.iter.step by induction on the remaining length: iterating a batch yields exactly the moves m with batch_has(m), each exactly once, destinations ascending, promotions in the order N,B,R,Q"]
LEMMAS["C05"] = ["L-slider (per back end): for all sq, occ: get_X_moves(sq, occ) = T[index(sq, occ)] = T[index(sq, occ & mask)] (lemma a) = spec(sq, occ & mask) (finite case analysis c, every subset of mask) = spec(sq, occ) (lemma b)",
                 "L-const: const variants == spec (O-C05.slow.*, all 64 squares) hence fast lookups == const variants in both back ends"]
LEVEL = {}
ASSUME = {}
