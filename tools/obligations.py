"""Registry of proof obligations.

Every obligation is one named unit that a back end decides:
  backend = "kani"    : a Kani harness (full path) run on the scratch copy of /repo
  backend = "verus"   : a Verus file (functions re-extracted from the scratch copy)
  backend = "native"  : an exhaustive finite case analysis run by /verif/native on the scratch copy

Fields
  prop      property id
  name      obligation name (appears in evidence, replay files, VIOLATION reports)
  pkg       cargo package (kani)
  harness   full harness path (kani)
  tier      "quick" (run in both tiers) or "thorough" (thorough tier only)
  timeout   seconds (per harness)
  bounded   None, or a string stating the bound (bounded stand-in; never counted as proved)
  fns       real functions under contract in this obligation
  features  extra cargo features ("pext")
  flags     extra kani flags (list)
  cut       True if the harness relies on loop-cut VCs (E2)
  what      one-line description
"""

OBL = []


def ob(prop, name, harness, what, fns, pkg="cozy-chess", tier="quick", timeout=900, bounded=None,
       backend="kani", features=(), flags=(), cut=False, group=None, solver=None, expect_covers=0, should_panic=False):
    OBL.append(dict(prop=prop, name=name, harness=harness, what=what, fns=list(fns), pkg=pkg, tier=tier,
                    timeout=timeout, bounded=bounded, backend=backend, features=tuple(features),
                    flags=tuple(flags), cut=cut, group=group, solver=solver, expect_covers=expect_covers, should_panic=should_panic))


T = "cozy-chess-types"
# Board-level harnesses: CBMC's pointer-validity checks and Kani's per-assertion reachability covers are
# switched off (safe Rust only; panics, overflow, bounds and unwinding checks stay on) - 2-3x faster
BF = ("--no-assertion-reach-checks", "--no-memory-safety-checks")
BB = "bitboard::verif_bitboard::"

# ------------------------------------------------------------------------------------------- C18
ob("C18", "O-C18.has", BB + "c18_has", "membership test == bit test; Square::bitboard is the singleton",
   ["BitBoard::has", "BitBoard::is_disjoint", "Square::bitboard"], pkg=T, timeout=300)
ob("C18", "O-C18.ops", BB + "c18_ops", "| & ^ - ! are union, intersection, symmetric difference, difference, complement (element-wise, all pairs)",
   ["BitBoard::bitor", "BitBoard::bitand", "BitBoard::bitxor", "BitBoard::sub", "BitBoard::not"], pkg=T, timeout=300)
ob("C18", "O-C18.assign", BB + "c18_assign_ops", "assigning forms equal the plain forms",
   ["BitBoard::bitor_assign", "BitBoard::bitand_assign", "BitBoard::bitxor_assign", "BitBoard::sub_assign"], pkg=T, timeout=300)
ob("C18", "O-C18.relations", BB + "c18_relations", "subset / superset / disjoint / empty agree with membership (both directions, witness square for the negative case)",
   ["BitBoard::is_subset", "BitBoard::is_superset", "BitBoard::is_disjoint", "BitBoard::is_empty"], pkg=T, timeout=300)
ob("C18", "O-C18.len", BB + "c18_len", "len == number of member squares", ["BitBoard::len"], pkg=T, timeout=300)
ob("C18", "O-C18.iter.step", BB + "c18_iter_step", "iterator step: lowest member returned, exactly it removed, exact remaining length; IntoIterator/next_square agree",
   ["BitBoardIter::next", "BitBoardIter::len", "BitBoardIter::size_hint", "BitBoard::iter", "BitBoard::into_iter", "BitBoard::next_square"], pkg=T, timeout=300)
ob("C18", "O-C18.subsets.step", BB + "c18_subsets_step", "subset iterator step: returns current subset, advances to the least greater subset, finishes after the full set",
   ["BitBoardSubsetIter::next", "BitBoard::iter_subsets"], pkg=T, timeout=600)
ob("C18", "O-C18.subsets.prefix4", BB + "c18_subsets_prefix4", "public API only: the first four outputs of iter_subsets() are the empty set and the successive numeric successors among the subsets; the iterator ends exactly after the full set (every set, incl. FULL)",
   ["BitBoard::iter_subsets", "BitBoardSubsetIter::next"], pkg=T, timeout=600, bounded="first 4 outputs (the unbounded statement is O-C18.subsets.step + induction)")
ob("C18", "O-C18.iter.prefix3", BB + "c18_iter_prefix3", "public API only: the first three outputs of iteration are the lowest members in ascending order with exact remaining length",
   ["BitBoard::into_iter", "BitBoardIter::next", "BitBoardIter::len"], pkg=T, timeout=600, bounded="first 3 outputs (the unbounded statement is O-C18.iter.step + induction)")
ob("C18", "O-C18.flips", BB + "c18_flips", "flip_ranks / flip_files move each member to the mirrored square and are involutions",
   ["BitBoard::flip_ranks", "BitBoard::flip_files"], pkg=T, timeout=300)
ob("C18", "O-C18.collect.b4", BB + "c18_collect_bounded4", "FromIterator<Square>: collecting up to 4 squares builds their set",
   ["BitBoard::from_iter"], pkg=T, timeout=300, bounded="sequences of at most 4 squares (the fold of core::iter is unwound)")

# ------------------------------------------------------------------------------------------- C19
TR = "verif_types::"
ob("C19", "O-C19.coord.square", TR + "c19_square_coords", "Square/File/Rank construction, decomposition, flips, colour-relative views, coordinate bitboards == plain coordinate arithmetic",
   ["Square::new", "Square::file", "Square::rank", "Square::index", "Square::try_index", "Square::index_const", "Square::flip_file", "Square::flip_rank", "Square::relative_to", "File::flip", "Rank::flip", "Rank::relative_to", "Square::bitboard", "File::bitboard", "Rank::bitboard", "File::adjacent"], pkg=T, timeout=300)
ob("C19", "O-C19.coord.index-total", TR + "c19_try_index_total", "try_index is total over usize: Some(i-th variant) exactly inside the range",
   ["Square::try_index", "File::try_index", "Rank::try_index", "Color::try_index", "Piece::try_index", "Color::not"], pkg=T, timeout=300)
ob("C19", "O-C19.coord.try-offset", TR + "c19_try_offset", "try_offset == coordinate arithmetic for all 64 x 256 x 256 arguments, None exactly off the board, no arithmetic overflow (so identical with overflow checks on and off); offset agrees in range",
   ["Square::try_offset", "Square::offset"], pkg=T, timeout=600)
ob("C19", "O-C19.coord.offset-panics", TR + "c19_offset_panics_off_board", "offset panics when the target is off the board",
   ["Square::offset"], pkg=T, timeout=300, should_panic=True)
ob("C19", "O-C19.char", TR + "c19_char_conversions", "char::from / TryFrom<char> are exact inverses for File, Rank, Piece, Color on the whole char domain",
   ["File::try_from", "Rank::try_from", "Piece::try_from", "Color::try_from", "char::from<File|Rank|Piece|Color>"], pkg=T, timeout=300)
ob("C19", "O-C19.parse.enums.b4", TR + "c19_parse_enums_b4", "FromStr for File/Rank/Piece/Color accepts exactly the one-letter texts",
   ["File::from_str", "Rank::from_str", "Piece::from_str", "Color::from_str"], pkg=T, timeout=900, bounded="all UTF-8 strings of at most 4 bytes")
ob("C19", "O-C19.parse.square.b6", TR + "c19_parse_square_b6", "Square::from_str accepts exactly <file letter><rank digit> and decodes it",
   ["Square::from_str"], pkg=T, timeout=900, bounded="all UTF-8 strings of at most 6 bytes")
ob("C19", "O-C19.parse.move.b8", TR + "c19_parse_move_b8", "Move::from_str accepts exactly <sq><sq>[nbrq] and decodes it; never panics",
   ["Move::from_str"], pkg=T, timeout=1800, bounded="all UTF-8 strings of at most 8 bytes")
ob("C19", "O-C19.display.square", TR + "c19_display_square", "Display for Square through the real core::fmt: file letter + rank digit",
   ["Square::fmt", "File::fmt", "Rank::fmt"], pkg=T, timeout=900)

ob("C19", "O-C19.display.enums", TR + "c19_display_enums", "Display for File/Rank/Piece/Color through the real core::fmt: the one-letter text",
   ["File::fmt", "Rank::fmt", "Piece::fmt", "Color::fmt"], pkg=T, timeout=900)
ob("C19", "O-C19.display.move-roundtrip", TR + "c19_display_move_roundtrip", "Display for Move through the real core::fmt gives <from><to>[letter]; parse(format(m)) == m for every legal-shape move, error for king/pawn promotions",
   ["Move::fmt", "Move::from_str", "Square::fmt", "Square::from_str"], pkg=T, timeout=1800)
# ------------------------------------------------------------------------------------------- C17
PM = "board::movegen::piece_moves::verif_piece_moves::"
ob("C17", "O-C17.len", PM + "c17_len", "len / is_empty agree with the enumeration (4 moves per pawn destination on rank 1/8, 1 otherwise)",
   ["PieceMoves::len", "PieceMoves::is_empty"], timeout=600)
ob("C17", "O-C17.has", PM + "c17_has", "has(m) == the enumeration yields m, for every move value (incl. king/pawn promotions and promotions on non-pawn batches)",
   ["PieceMoves::has"], timeout=600)
ob("C17", "O-C17.iter.step", PM + "c17_iter_step", "PieceMovesIter::next returns the head of the pending enumeration and leaves exactly the tail; exact remaining length; unreachable!() never reached",
   ["PieceMovesIter::next", "PieceMovesIter::len", "PieceMovesIter::size_hint", "PieceMoves::into_iter"], timeout=900)

# ------------------------------------------------------------------------------------------- C05
MV = "moves::verif_moves::"
for nm, fn, what in [
    ("knight", "get_knight_moves", "knight attack table == 8 leaper offsets, all 64 squares"),
    ("king", "get_king_moves", "king attack table == 8 neighbour offsets, all 64 squares"),
    ("pawn_attacks", "get_pawn_attacks", "pawn attack table == two forward diagonals, all (square, colour)"),
    ("pawn_quiets", "get_pawn_quiets", "pawn pushes == single step onto an empty square, double step from the second rank over two empty squares; all (square, colour, occupancy)"),
    ("rays", "get_rook_rays/get_bishop_rays", "empty-board rays == slider attacks on the empty board, all 64 squares"),
    ("between", "get_between_rays", "squares strictly between two aligned squares, empty otherwise; all 64x64 pairs"),
    ("line", "get_line_rays", "full line through two distinct aligned squares, empty otherwise; all 64x64 pairs"),
]:
    ob("C05", "O-C05." + nm.replace("_", "-"), MV + "c05_" + nm, what, [fn], timeout=900)
ob("C05", "O-C05.spec.between-line", MV + "c05_spec_between_line_coordinates", "oracle guard: the oracle's between/line agree with the coordinate (collinearity / segment) definition for all 64x64x64 triples",
   ["(oracle) chess_spec::between", "(oracle) chess_spec::line"], timeout=900)
ob("C05", "O-C05.slider.spec-irrelevant.rook", MV + "c05_spec_irrelevant_rook", "lemma (b): the geometric rook attack set ignores occupancy outside get_rook_relevant_blockers(sq); all squares x 2^64",
   ["get_rook_relevant_blockers"], timeout=1800)
ob("C05", "O-C05.slider.spec-irrelevant.bishop", MV + "c05_spec_irrelevant_bishop", "lemma (b): the geometric bishop attack set ignores occupancy outside get_bishop_relevant_blockers(sq); all squares x 2^64",
   ["get_bishop_relevant_blockers"], timeout=1800)
ob("C05", "O-C05.slider.index-irrelevant.rook", MV + "c05_index_irrelevant_rook", "lemma (a): get_rook_moves_index ignores occupancy outside the relevant blockers; all squares x 2^64",
   ["get_rook_moves_index", "get_magic_index"], timeout=1800)
ob("C05", "O-C05.slider.index-irrelevant.bishop", MV + "c05_index_irrelevant_bishop", "lemma (a): get_bishop_moves_index ignores occupancy outside the relevant blockers; all squares x 2^64",
   ["get_bishop_moves_index", "get_magic_index"], timeout=1800)
for i in range(64):
    ob("C05", "O-C05.slow.sq%02d" % i, MV + "c05_slow_%02d" % i, "const variants (slow walker) == geometric definition for square %d, all 2^64 occupancies (rook and bishop)" % i,
       ["get_rook_moves_const", "get_bishop_moves_const", "get_rook_moves_slow", "get_bishop_moves_slow", "get_slider_moves"], timeout=900,
       )
ob("C05", "O-C05.slider.index-irrelevant.pext", "sliders::pext::verif_pext::c05_pext_index_irrelevant", "lemma (a), PEXT back end: get_rook/bishop_moves_index ignore occupancy outside the relevant blockers and stay below SLIDING_MOVE_TABLE_SIZE; _pext_u64 replaced by its specification (64-step gather)",
   ["get_pext_index", "get_rook_moves_index (pext)", "get_bishop_moves_index (pext)"], pkg=T, features=("pext",), timeout=1800)
ob("C05", "O-C05.slider.table.magic", "sliders", "finite case analysis (c): for every square and every subset s of the relevant blockers (107,648 cases) get_rook_moves/get_bishop_moves(sq, s) == geometric definition (index in bounds); default magic back end",
   ["get_rook_moves", "get_bishop_moves", "get_rook_moves_index", "get_bishop_moves_index", "SLIDING_MOVES (build.rs output)"], backend="native", timeout=600)
ob("C05", "O-C05.slider.table.pext", "sliders", "finite case analysis (c) in the PEXT configuration (--features pext, -C target-feature=+bmi2, real instruction)",
   ["get_rook_moves", "get_bishop_moves", "get_pext_index", "pext_u64", "SLIDING_MOVES (build.rs output)"], backend="native", timeout=600, features=("pext",))

# ------------------------------------------------------------------------------------------- C10
ZB = "board::zobrist::verif_zobrist::"
ob("C10", "O-C10.writer.xor_square", ZB + "c10_xor_square", "xor_square toggles exactly (piece, colour, square) in the two bitboards and XORs exactly KEY(colour, piece, square); every other field unchanged",
   ["ZobristBoard::xor_square"], timeout=900)
ob("C10", "O-C10.writer.set_castle_right", ZB + "c10_set_castle_right", "set_castle_right replaces exactly one right and XORs out the old / in the new key of that colour; every other field unchanged",
   ["ZobristBoard::set_castle_right"], timeout=900)
ob("C10", "O-C10.writer.set_en_passant", ZB + "c10_set_en_passant", "set_en_passant replaces the EP file and XORs out the old / in the new EP key; every other field unchanged",
   ["ZobristBoard::set_en_passant"], timeout=900)
ob("C10", "O-C10.writer.toggle", ZB + "c10_toggle", "toggle_side_to_move flips the side and XORs the side key; every other field unchanged",
   ["ZobristBoard::toggle_side_to_move"], timeout=900)
ob("C10", "O-C10.observers", ZB + "c10_observers", "hash() returns the stored hash; hash_without_ep() == hash of the same position with the EP file cleared; the empty board hashes to 0",
   ["ZobristBoard::hash", "ZobristBoard::hash_without_ep", "ZobristBoard::empty"], timeout=900)
ob("C10", "O-C10.contract-stubs", ZB + "c10_contract_stubs_faithful", "the contract stubs used by board-level hash obligations have exactly the field effect of the real writers",
   ["ZobristBoard::xor_square", "ZobristBoard::set_castle_right", "ZobristBoard::set_en_passant", "ZobristBoard::toggle_side_to_move"], timeout=900)
ob("C10", "O-C10.null", "board::verif_board::c10_null_hash", "hash after null_move == hash before ^ keys of the changed side/EP features, placement untouched (real key arithmetic)",
   ["Board::null_move"], timeout=1800, cut=True, flags=BF)
ob("C10", "O-C10.board_is_equal", ZB + "c10_board_is_equal", "board_is_equal compares exactly placement, side to move and castling rights",
   ["ZobristBoard::board_is_equal"], timeout=900)

# ------------------------------------------------------------------------------------------- C14
BD = "board::verif_board::"
ob("C14", "O-C14.null", BD + "c14_null_move", "null_move on every accepted board: None iff in check; otherwise every field == spec_null, checkers empty, pins and hash equal those of a fresh board of the position, result accepted (loop-invariant VCs for the pin loop)",
   ["Board::null_move", "ZobristBoard::toggle_side_to_move", "ZobristBoard::set_en_passant", "Board::king"], timeout=1800, cut=True, expect_covers=2, flags=BF)

# ------------------------------------------------------------------------------------------- play family
KINDS = ["pawn", "knight", "bishop", "rook", "queen", "king", "castle"]
PLAYFNS = ["Board::play_unchecked", "Board::piece_on", "Board::king", "ZobristBoard::xor_square", "ZobristBoard::set_castle_right", "ZobristBoard::set_en_passant", "ZobristBoard::toggle_side_to_move"]
for k in KINDS:
    ob("C02", "O-C02.play." + k, BD + "c02_play_" + k, "play_unchecked of any legal %s move on any accepted board: every position field (8 bitboards, side, 4 rights, EP file, both clocks) == successor prescribed by the rules" % k,
       PLAYFNS, timeout=2400, cut=True, flags=BF)
    ob("C03", "O-C03.play." + k, BD + "c03_play_" + k, "after play_unchecked of any legal %s move: checkers and pins == their definition on the resulting position (loop-invariant VCs for the slider loop)" % k,
       PLAYFNS, timeout=2400, cut=True, flags=BF)
    ob("C06", "O-C06.inv-preserved.play." + k, BD + "c06_play_" + k, "acceptance is inductive: the rule-prescribed successor of an accepted position after a legal %s move is accepted" % k,
       ["(oracle) spec_accept", "(oracle) spec_play", "(oracle) spec_legal"], timeout=2400, flags=BF)
    ob("C10", "O-C10.play." + k, BD + "c10g_play_" + k, "after play_unchecked of any legal %s move the key toggles performed by the four hash writers (seen through their contracts O-C10.writer.*) turn the feature set of the position into that of the successor" % k,
       PLAYFNS, timeout=2400, cut=True, flags=BF, group="hash-ghost")
    ob("C10", "O-C10.play-real." + k, BD + "c10_play_" + k, "after play_unchecked of any legal %s move: hash ^ old hash == XOR of the REAL keys of the features that changed on the (at most five) touched squares and in rights/EP/side; nothing else changed" % k,
       PLAYFNS, timeout=5400, cut=True, flags=BF, tier="thorough", group="hash-real")

# ------------------------------------------------------------------------------------------- C01 / C16
MG = "board::movegen::verif_movegen::"
GENFNS = ["Board::generate_moves_for", "Board::add_all_legals", "Board::add_pawn_legals", "Board::add_knight_legals", "Board::add_slider_legals", "Board::add_king_legals", "Board::king_safe_on", "Board::can_castle", "Board::target_squares"]
for k in ["pawn", "knight", "bishop", "rook", "queen", "king", "none"]:
    for m, mt in [(0, "not in check"), (1, "single check"), (2, "double check")]:
        for prop in ("C01", "C16"):
            ob(prop, "O-%s.gen.%s.%d" % (prop, k, m), MG + "c01_gen_%s_%d" % (k, m),
               "whole path: generate_moves_for(mask, listener) on every accepted board (%s), query origin holding %s: the query move is delivered exactly once iff it is legal by the rules and its origin is in the mask; batches non-empty, origin in mask, piece correct; no call after abort, return value == aborted; <= 1 ordinary + 1 en-passant batch per origin" % (mt, "an own " + k if k != "none" else "no own piece"),
               GENFNS, timeout=3600, cut=True, flags=BF, tier="thorough")
# O-C16.calls-bound.<mode> (harnesses c16_calls_bound_<mode>, counting invariant only) are NOT registered: mode 2
# proves in 3 min, mode 1 did not finish in 25 min and mode 0 ended in a failed check that could not be triaged
# in the time available (see DESIGN A10); "at most 18 batches" therefore still rests on lemma L-18.
for prop in ("C01", "C16"):
    ob(prop, "O-%s.dispatch" % prop, MG + "c01_dispatch", "generate_moves_for against recording contract stubs of the six generator functions: by number of checkers (0 / 1 / >= 2) it calls every function once with IN_CHECK false / every function once with IN_CHECK true / only the king function, always with the caller's mask, stops at the first abort and returns true exactly then",
       ["Board::generate_moves_for", "Board::add_all_legals"], timeout=900)
    ob(prop, "O-%s.dispatch.full" % prop, MG + "c01_dispatch_full_mask", "generate_moves is generate_moves_for with the full mask (same dispatch contract)",
       ["Board::generate_moves", "Board::generate_moves_for"], timeout=900)
FNOF = {"pawn": "Board::add_pawn_legals", "knight": "Board::add_knight_legals", "bishop": "Board::add_slider_legals<Bishop>", "rook": "Board::add_slider_legals<Rook>", "queen": "Board::add_slider_legals<Queen>", "king": "Board::add_king_legals"}
for k in ["pawn", "knight", "bishop", "rook", "queen", "king"]:
    for m, mt in [(0, "not in check"), (1, "in check")]:
        for prop in ("C01", "C16"):
            ob(prop, "O-%s.fn.%s.%d" % (prop, k, m), MG + "c01_fn_%s_%d" % (k, m),
               "per-function contract of %s (%s) called directly with the ghost listener on every accepted board, mask and abort plan: the query move is delivered exactly once iff it is legal by the rules, its origin is in the mask and holds a %s; per-batch contract; returns true exactly when the listener aborted, no call after an abort" % (FNOF[k], mt, k),
               [FNOF[k], "Board::target_squares", "Board::king_safe_on", "Board::can_castle"], timeout=2400, cut=True, flags=BF)
# ------------------------------------------------------------------------------------------- C04
for k in ["pawn", "knight", "bishop", "rook", "queen", "king", "none"]:
    ob("C04", "O-C04.is-legal." + k, MG + "c04_is_legal_" + k, "is_legal(mv) == legality by the rules for every accepted board and every move value (64x64x7) whose origin holds %s; never panics" % ("an own " + k if k != "none" else "no own piece"),
       ["Board::is_legal", "Board::king_is_legal", "Board::can_castle", "Board::king_safe_on", "Board::add_pawn_legals", "Board::target_squares"], timeout=3000, flags=BF)
# ------------------------------------------------------------------------------------------- C12
for k in ["pawn", "knight", "bishop", "rook", "queen", "king"]:
    ob("C12", "O-C12.status." + k, MG + "c12_status_" + k, "status() is one of the two rows of the Won/Drawn/Ongoing table for (in check, clock >= 100) and is the has-a-legal-move row whenever a legal %s move exists (loop-invariant VCs: no processed square has a legal move)" % k,
       ["Board::status", "Board::generate_moves", "Board::generate_moves_for"] + GENFNS[1:], timeout=3600, cut=True, flags=BF, expect_covers=0,
       tier="quick" if k in ("pawn", "king") else "thorough")
ob("C12", "O-C12.status.table", MG + "c12_status_table", "status() == Won/Drawn/Ongoing table applied to (answer of exactly one call of generate_moves, checkers non-empty, clock >= 100); generate_moves through a recording contract stub",
   ["Board::status"], timeout=900)
ob("C12", "O-C12.status.double-check", MG + "c12_status_double_check", "in double check (only king steps can be legal: proved for a universally quantified move) status() == table(the king has a safe destination, in check, clock) - both directions, exact",
   ["Board::status", "Board::generate_moves_for", "Board::add_king_legals", "Board::king_safe_on"], timeout=3600, cut=True, flags=BF)
# ------------------------------------------------------------------------------------------- C15
ob("C15", "O-C15.try_play", BD + "c15_try_play", "try_play consults is_legal once with the given move on the untouched board; Err iff the answer is no and then the board is bit-identical; Ok iff yes and then the board is exactly what play_unchecked produced (recording contract stubs)",
   ["Board::try_play"], timeout=900)
ob("C15", "O-C15.play.legal", BD + "c15_play_legal_no_panic", "play does not panic on a legal move and leaves the board as play_unchecked produced it",
   ["Board::play", "Board::try_play"], timeout=900)
ob("C15", "O-C15.play.illegal-panics", BD + "c15_play_illegal_panics", "play panics on every illegal move",
   ["Board::play", "Board::try_play"], timeout=900, should_panic=True)
# (the end-to-end harnesses for non-pawn origins, c15_e2e_<kind>, exist in kani/cc_board.rs but are NOT registered:
#  CBMC ran out of time/memory on them - measured 2026-09-27)
ob("C15", "O-C15.try_play.end-to-end.pawn-illegal", BD + "c15_try_play_end_to_end_pawn_illegal", "no stubs: every illegal pawn move is rejected by try_play and leaves every field unchanged",
   ["Board::try_play", "Board::is_legal", "Board::add_pawn_legals"], timeout=5400, flags=BF, tier="thorough")
# ------------------------------------------------------------------------------------------- C13
ob("C13", "O-C13.same_position", BD + "c13_same_position", "same_position(a, b) == same placement, side, rights and the same file on which a PAWN can legally capture en passant (or none), for all pairs of accepted boards; is_legal and the EP-less hash through their contracts",
   ["Board::same_position", "effective_ep", "ZobristBoard::board_is_equal"], timeout=3000, flags=BF, expect_covers=2)

# ------------------------------------------------------------------------------------------- validators / builder
VD = "board::validate::verif_validate::"
BL = "board::builder::verif_builder::"
ob("C03", "O-C03.calc", VD + "c03_calc", "calculate_checkers_and_pins(colour) == (checkers, pins) by definition on every consistent placement (loop-invariant VCs)",
   ["Board::calculate_checkers_and_pins", "Board::king"], timeout=2400, cut=True, flags=BF)
ob("C03", "O-C03.null", BD + "c14_null_move", "after null_move: checkers empty and pins == definition on the resulting position",
   ["Board::null_move"], timeout=1800, cut=True, flags=BF)
ob("C03", "O-C03.ctor.build", BL + "c09_build", "build() stores checkers and pins equal to their definition (part of the build contract)",
   ["BoardBuilder::build", "BoardBuilder::add_board"], timeout=3600, cut=True, flags=BF, tier="thorough")
ob("C06", "O-C06.board_is_valid", VD + "c06_board_is_valid", "board_is_valid() <=> consistent placement, one king per side, kings not adjacent, <=16 pieces, <=8 pawns, no pawn on rank 1/8, side not to move not in check",
   ["Board::board_is_valid", "Board::calculate_checkers_and_pins"], timeout=2400, cut=True, flags=BF)
ob("C06", "O-C06.castle_rights_are_valid", VD + "c06_castle_rights_are_valid", "castle_rights_are_valid() <=> every right backed by the king on its back rank and an own rook on the named file on the correct side",
   ["Board::castle_rights_are_valid"], timeout=1800, flags=BF)
ob("C06", "O-C06.en_passant_is_valid", VD + "c06_en_passant_is_valid", "en_passant_is_valid() <=> EP file backed by an enemy pawn that could just have advanced two squares (origin, passed square empty) and every checker is that pawn or seen through the origin square",
   ["Board::en_passant_is_valid"], timeout=2400, cut=True, flags=BF)
ob("C06", "O-C06.checkers_and_pins_are_valid", VD + "c06_checkers_and_pins_are_valid", "checkers_and_pins_are_valid() <=> stored checkers/pins equal their definition and at most two checkers",
   ["Board::checkers_and_pins_are_valid", "Board::calculate_checkers_and_pins"], timeout=2400, cut=True, flags=BF)
ob("C06", "O-C06.clocks", VD + "c06_clocks_valid", "halfmove_clock_is_valid <=> <= 100; fullmove_number_is_valid <=> > 0",
   ["Board::halfmove_clock_is_valid", "Board::fullmove_number_is_valid"], timeout=600)
ob("C06", "O-C06.spec.attack-duality", VD + "spec_attack_duality", "oracle guard: forward (union of attack sets) and reverse (lookup from the target) formulations of 'attacked' agree for every placement and occupancy",
   ["(oracle) attacked_by", "(oracle) attackers_of"], timeout=1800, flags=BF)
ob("C06", "O-C06.accept.build", BL + "c09_build", "build() returns a board only for states denoting an accepted position (=> every fact of the statement), and returns one for every such state",
   ["BoardBuilder::build"], timeout=3600, cut=True, flags=BF, tier="thorough")
ob("C09", "O-C09.build", BL + "c09_build", "build() on a fully symbolic builder state: Ok exactly when the state denotes an accepted position, board == that position with derived fields by definition and hash accounted; when exactly one aspect is wrong the error names it",
   ["BoardBuilder::build", "BoardBuilder::add_board", "BoardBuilder::add_castle_rights", "BoardBuilder::add_en_passant", "BoardBuilder::add_halfmove_clock", "BoardBuilder::add_fullmove_number"], timeout=3600, cut=True, flags=BF, expect_covers=1, tier="thorough")
for cs, ct in [("w_noep", "white to move, no EP square"), ("w_ep", "white to move, EP square given"), ("b_noep", "black to move, no EP square"), ("b_ep", "black to move, EP square given")]:
    ob("C09", "O-C09.build." + cs.replace("_", "-"), BL + "c09_build_" + cs, "build() contract (Ok exactly for states denoting an accepted position, board == that position with derived fields by definition, single wrong aspect named) restricted to: " + ct,
       ["BoardBuilder::build", "BoardBuilder::add_board", "BoardBuilder::add_castle_rights", "BoardBuilder::add_en_passant", "BoardBuilder::add_halfmove_clock", "BoardBuilder::add_fullmove_number"], timeout=3600, cut=True, flags=BF)
# (an 8-way split c09_build_s0..s7 exists in kani/cc_builder.rs; measured 470-545 s per case, no gain over the
#  4-way split because ~200 s per harness is symbolic execution of the 64-square builder: not registered)
ob("C09", "O-C09.from_board", BL + "c09_from_board", "from_board(b) is the builder state denoting b's position (universally quantified square; loop-invariant VCs for the innermost loop)",
   ["BoardBuilder::from_board", "BoardBuilder::square_mut", "BoardBuilder::castle_rights_mut"], timeout=2400, cut=True, flags=BF)
ob("C10", "O-C10.ctor.build", BL + "c10g_build_hash", "build() leaves hash == XOR of the keys of the features of the built position: from the empty board through the four writers only (feature accounting through their contracts)",
   ["BoardBuilder::build", "BoardBuilder::add_board", "BoardBuilder::add_castle_rights", "BoardBuilder::add_en_passant"], timeout=3600, cut=True, flags=BF, group="hash-ghost", tier="thorough")

# ------------------------------------------------------------------------------------------- C11
ob("C11", "O-C11.indep4", "indep4.rs", "Verus-verified checker (for all inputs: true => no XOR of 1..4 distinct entries is zero), compiled and executed on the real 793-entry key table dumped from the current tree",
   ["(verified) check_indep4", "ZOBRIST (const table)"], backend="verus", timeout=1800)

# ------------------------------------------------------------------------------------------- C08
PR = "board::parse::verif_parse::"
ob("C08", "O-C08.field.side.b3", PR + "c08_field_side_b3", "parse_side_to_move accepts exactly \"w\" / \"b\" and sets the side", ["Board::parse_side_to_move", "Color::from_str"], timeout=900, bounded="all UTF-8 strings of at most 3 bytes")
ob("C08", "O-C08.field.clocks.b6", PR + "c08_field_clocks_b6", "parse_halfmove_clock / parse_fullmove_number accept exactly decimal texts in 0..=100 / 1..=65535 and store the value", ["Board::parse_halfmove_clock", "Board::parse_fullmove_number"], timeout=1800, bounded="all UTF-8 strings of at most 6 bytes")
ob("C08", "O-C08.field.ep.b4", PR + "c08_field_ep_b4", "parse_en_passant accepts exactly \"-\" or a square on the rank behind the pawn of the side that just moved and stores its file", ["Board::parse_en_passant", "Square::from_str"], timeout=900, bounded="all UTF-8 strings of at most 4 bytes")
ob("C08", "O-C08.field.castle.b5", PR + "c08_field_castle_b5", "parse_castle_rights: FEN (KQkq) and Shredder (file letters) notation decoded per reference, duplicates and the EMPTY field rejected", ["Board::parse_castle_rights"], timeout=1800, bounded="all UTF-8 strings of at most 5 bytes; any two king squares")
for n in (3,):
    ob("C08", "O-C08.field.board.len%d" % n, PR + "c08_field_board_len%d" % n, "parse_board on every ASCII string of exactly %d bytes: accepted exactly for 8 ranks of 8 files, placement as denoted" % n, ["Board::parse_board"], timeout=3600, bounded="all ASCII strings of exactly %d bytes" % n, tier="quick")
ob("C08", "O-C08.orchestration.b8", PR + "c08_orchestration_b8", "from_fen with all field parsers / validators replaced by recording stubs: a board only for six fields with every stage succeeding, each field handed to its parser; a single failing stage names its field; too few / too many fields reported as such; never panics", ["Board::from_fen"], timeout=3600, bounded="all UTF-8 strings of at most 8 bytes (any number of spaces) x all 2^12 stage outcomes", tier="thorough")
ob("C08", "O-C08.fromstr", PR + "c08_fromstr_retry", "FromStr returns the plain-FEN result and retries as Shredder-FEN exactly on InvalidCastlingRights", ["Board::from_str"], timeout=900)

ob("C06", "O-C06.start", "startpos", "finite case analysis: all 960 Scharnagl numbers give the Chess960 shape per colour, and all 960 x 960 start-position pairs build, denote accepted positions with derived fields by definition, and equal the Board constructors",
   ["BoardBuilder::double_chess960_startpos", "BoardBuilder::chess960_startpos", "BoardBuilder::write_piece_config", "Board::double_chess960_startpos", "BoardBuilder::build"], backend="native", timeout=1800)

# ------------------------------------------------------------------------------------------- C20
UT = "util::verif_util::"
ob("C20", "O-C20.uci.roundtrip", UT + "c20_uci_roundtrip", "on every accepted board with orthodox castling rights and every legal move: display_uci_move (through the real core::fmt) emits standard UCI (castling as e1g1/e1c1 style) and parse_uci_move maps the text back to the move",
   ["util::display_uci_move", "util::parse_uci_move", "Move::fmt", "Move::from_str"], timeout=3600, flags=BF, expect_covers=1)



def for_property(prop, tier):
    out = []
    for o in OBL:
        if o["prop"] != prop:
            continue
        if o["tier"] == "thorough" and tier != "thorough":
            continue
        out.append(o)
    return out


# paper lemmas / dependency notes per property (copied into evidence)
LEMMAS = {
    "C18": ["L-iter: from O-C18.iter.step by induction on len(): iteration yields the members in ascending order, each exactly once, "
            "with exact remaining length", "L-subsets: from O-C18.subsets.step by induction: every subset exactly once in increasing numeric order "
            "(the sequence starts at the least subset 0, each step is the numeric successor among subsets, and it stops after the greatest subset)"],
}

LEMMAS["C17"] = ["L-batch: from O-C17.iter.step by induction on the remaining length: iterating a batch yields exactly the moves m with batch_has(m), each exactly once, destinations ascending, promotions in the order N,B,R,Q"]
LEMMAS["C05"] = ["L-slider (per back end): for all sq, occ: get_X_moves(sq, occ) = T[index(sq, occ)] = T[index(sq, occ & mask)] (lemma a) = spec(sq, occ & mask) (finite case analysis c, every subset of mask) = spec(sq, occ) (lemma b)",
                 "L-const: const variants == spec (O-C05.slow.*, all 64 squares) hence fast lookups == const variants in both back ends"]
LEMMAS["C01"] = ["L-compose (quick tier): O-C01.dispatch (which functions are called, with which mask / IN_CHECK, abort propagation) + the per-function contracts O-C01.fn.* (each function delivers exactly the legal moves of its own piece kind with origin in the mask) give the whole-path contract of generate_moves_for; the whole-path contract is ALSO machine-checked directly in the thorough tier (O-C01.gen.*, 21 obligations). In double check no non-king move is legal (part of O-C12.status.double-check / O-C01.gen.*.2)",
                 "L-hist: the contracts hold for every board satisfying INV; INV holds along every history (O-C06.inv-preserved.*, O-C14.null, O-C09.build)"]
LEMMAS["C16"] = LEMMAS["C01"] + ["L-18: at most one ordinary batch per origin square and one en-passant batch per pawn attacking the EP square (machine-checked per origin, NB_FROM), at most 16 own pieces (INV) and at most 2 pawns attack the EP square: at most 18 batches"]
LEMMAS["C12"] = ["O-C12.status.table: status() == table(g, checkers non-empty, clock) where g is the answer of its single call generate_moves(|_| true)",
                 "L-exists: g is true iff a legal move exists. (<=) machine-checked (O-C12.status.*: if a legal move exists the has-move row is returned). (=>) from O-C01/O-C16: the listener is only called with non-empty batches all of whose members are legal, and the return value is true only if the listener was called. In double check both directions are machine-checked exactly (O-C12.status.double-check)"]
LEMMAS["C13"] = ["reflexive/symmetric/transitive: spec_same_position is equality of the tuple (placement, side, rights, effective EP file), a function of one board"]
LEMMAS["C15"] = ["with O-C04 (is_legal == legality) and O-C02/C03/C10 (play_unchecked contract): try_play succeeds exactly on legal moves and then yields the rule-prescribed successor"]
LEMMAS["C11"] = ["L-C11: by C10 (hash == XOR of KEY over the features present, writer contracts + feature accounting) hash(a) ^ hash(b) = XOR of KEY over the symmetric difference of the two feature sets; the feature -> table-entry map is injective (distinct indices of the table, O-C10.writer.* pin the indexing); for 1..4 differing features the XOR is non-zero by indep4 of the dumped table"]
LEMMAS["C10"] = ["L-lin: if positions p, q agree outside a set S of squares then spec_hash(q) ^ spec_hash(p) = XOR over s in S of (KEY(p at s) ^ KEY(q at s)) ^ rest(p) ^ rest(q) (XOR is associative/commutative; equal terms cancel). With O-C10.play.* / O-C10.null (hash delta == that sum, real arithmetic) and O-C10.ctor.* (constructors establish hash == spec_hash) the invariant hash == spec_hash(position) holds along every history (L-hist)",
                 "L-hist: induction over the history: constructors establish INV (O-C09.build, O-C10.ctor.build), play_unchecked and null_move preserve it (O-C02/C03/C06.inv-preserved/C10.play, O-C14.null/O-C10.null)"]
LEVEL = {"C08": "model_checking"}
_BOARD = ["B1 lookups (get_rook_moves, get_bishop_moves, rays, between, line, knight, king, pawn attacks/quiets) are replaced by their contracts (kani::stub, right-hand sides of O-C05.*)",
          "B2 bitboard for-loops are replaced by loop-invariant VCs (init / arbitrary iteration / exit) generated by tools/extract.py from tools/loops.json; the modifies-scan of each body is syntactic",
          "B3 the symbolic board is any board with spec_accept(position) and derived fields by definition (INV); INV is inductive (O-C06.inv-preserved.*, O-C14.null) and established by the constructors (O-C09.build)",
          "B4 CBMC pointer-validity checks and Kani reachability covers are off for these harnesses (safe Rust); panic, overflow, bounds and unwinding checks are on"]
# obligations whose harness inspects private iterator state (marked <private-state> in the harness file): if
# the harness no longer compiles against the tree they are reported undecided and the rest still runs
PRIVATE_STATE = {"O-C18.iter.step", "O-C18.subsets.step"}
ASSUME = {p: _BOARD for p in ("C01", "C02", "C03", "C04", "C06", "C09", "C10", "C12", "C13", "C14", "C16", "C20")}
ASSUME["C10"] = _BOARD + ["H1 quick tier: board-level hash obligations see the four writers through their contracts (feature accounting); applicable only while no other function of zobrist.rs writes the hash field (scanned every run), otherwise the real-arithmetic obligations run",
                           "H2 L-lin: XOR linearity connects the real-arithmetic delta obligations to hash == spec_hash(position)"]
ASSUME["C11"] = ["V1 Verus/Z3; the two #[verifier::external_body] I/O functions of verus/indep4.rs carry no specification", "V2 the key dump (extraction edit E6, native/src/main.rs `keys`) lists every table entry exactly once"]
ASSUME["C05"] = ["S1 PEXT hardware semantics modelled by a 64-step gather (Intel SDM); extraction edit E4 removes the compile-time BMI2 gate under cfg(kani) only",
                 "S2 part (c) of the slider argument is exhaustive evaluation on the build-script output of the current tree (both configurations), not a SAT proof"]
ASSUME["C08"] = ["T1 every string quantifier is bounded by the stated byte length; the placement parser is only covered at 3 bytes; from_fen orchestration and totality on long strings are NOT covered"]
ASSUME["C15"] = ["K1 is_legal and play_unchecked are replaced by recording contract stubs; their own contracts are O-C04.* and O-C02/C03/C10.play.*"]
ASSUME["C13"] = _BOARD + ["K2 is_legal is replaced by its contract (O-C04.*), hash_without_ep by 'a function of placement, side and rights' (C10)"]
ASSUME["C20"] = _BOARD + ["U1 only the UCI half is decided; SAN writer/reader are not covered"]
