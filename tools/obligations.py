"""Registry of proof obligations.

Every obligation is one named unit that a back end decides:
  backend = "kani"    : a Kani harness (full path) run on the scratch copy of /repo
  backend = "verus"   : a Verus file (functions re-extracted from the scratch copy)
  backend = "native"  : an exhaustive finite case analysis run by /verif/native on the scratch copy

Fields
  prop      property id
  name      obligation name (appears in evidence, replay files, VIOLATION reports)
  pkg       cargo package (kani)
  harness   full harness path (kani)
  tier      "quick" (run in both tiers) or "thorough" (thorough tier only)
  timeout   seconds (per harness)
  bounded   None, or a string stating the bound (bounded stand-in; never counted as proved)
  fns       real functions under contract in this obligation
  features  extra cargo features ("pext")
  flags     extra kani flags (list)
  cut       True if the harness relies on loop-cut VCs (E2)
  what      one-line description
"""

OBL = []


def ob(prop, name, harness, what, fns, pkg="cozy-chess", tier="quick", timeout=900, bounded=None,
       backend="kani", features=(), flags=(), cut=False, group=None, solver=None, expect_covers=0):
    OBL.append(dict(prop=prop, name=name, harness=harness, what=what, fns=list(fns), pkg=pkg, tier=tier,
                    timeout=timeout, bounded=bounded, backend=backend, features=tuple(features),
                    flags=tuple(flags), cut=cut, group=group, solver=solver, expect_covers=expect_covers))


T = "cozy-chess-types"
BB = "bitboard::verif_bitboard::"

# ------------------------------------------------------------------------------------------- C18
ob("C18", "O-C18.has", BB + "c18_has", "membership test == bit test; Square::bitboard is the singleton",
   ["BitBoard::has", "BitBoard::is_disjoint", "Square::bitboard"], pkg=T, timeout=300)
ob("C18", "O-C18.ops", BB + "c18_ops", "| & ^ - ! are union, intersection, symmetric difference, difference, complement (element-wise, all pairs)",
   ["BitBoard::bitor", "BitBoard::bitand", "BitBoard::bitxor", "BitBoard::sub", "BitBoard::not"], pkg=T, timeout=300)
ob("C18", "O-C18.assign", BB + "c18_assign_ops", "assigning forms equal the plain forms",
   ["BitBoard::bitor_assign", "BitBoard::bitand_assign", "BitBoard::bitxor_assign", "BitBoard::sub_assign"], pkg=T, timeout=300)
ob("C18", "O-C18.relations", BB + "c18_relations", "subset / superset / disjoint / empty agree with membership (both directions, witness square for the negative case)",
   ["BitBoard::is_subset", "BitBoard::is_superset", "BitBoard::is_disjoint", "BitBoard::is_empty"], pkg=T, timeout=300)
ob("C18", "O-C18.len", BB + "c18_len", "len == number of member squares", ["BitBoard::len"], pkg=T, timeout=300)
ob("C18", "O-C18.iter.step", BB + "c18_iter_step", "iterator step: lowest member returned, exactly it removed, exact remaining length; IntoIterator/next_square agree",
   ["BitBoardIter::next", "BitBoardIter::len", "BitBoardIter::size_hint", "BitBoard::iter", "BitBoard::into_iter", "BitBoard::next_square"], pkg=T, timeout=300)
ob("C18", "O-C18.subsets.step", BB + "c18_subsets_step", "subset iterator step: returns current subset, advances to the least greater subset, finishes after the full set",
   ["BitBoardSubsetIter::next", "BitBoard::iter_subsets"], pkg=T, timeout=600)
ob("C18", "O-C18.flips", BB + "c18_flips", "flip_ranks / flip_files move each member to the mirrored square and are involutions",
   ["BitBoard::flip_ranks", "BitBoard::flip_files"], pkg=T, timeout=300)
ob("C18", "O-C18.collect.b4", BB + "c18_collect_bounded4", "FromIterator<Square>: collecting up to 4 squares builds their set",
   ["BitBoard::from_iter"], pkg=T, timeout=300, bounded="sequences of at most 4 squares (the fold of core::iter is unwound)")


def for_property(prop, tier):
    out = []
    for o in OBL:
        if o["prop"] != prop:
            continue
        if o["tier"] == "thorough" and tier != "thorough":
            continue
        out.append(o)
    return out


# paper lemmas / dependency notes per property (copied into evidence)
LEMMAS = {
    "C18": ["L-iter: from O-C18.iter.step by induction on len(): iteration yields the members in ascending order, each exactly once, "
            "with exact remaining length", "L-subsets: from O-C18.subsets.step by induction: every subset exactly once in increasing numeric order "
            "(the sequence starts at the least subset 0, each step is the numeric successor among subsets, and it stops after the greatest subset)"],
}

LEVEL = {}
ASSUME = {}
