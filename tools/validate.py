#!/usr/bin/env python3
"""validate MANIFEST.json and evidence/*.json against the schemas (needs jsonschema: python3-vt)"""
import glob, json, sys
import jsonschema
ok = True
def v(path, schema):
    global ok
    try:
        jsonschema.validate(json.load(open(path)), json.load(open(schema)))
        print("ok   ", path)
    except Exception as e:
        ok = False
        print("FAIL ", path, str(e)[:300])
v("/verif/MANIFEST.json", "/root/.vp/MANIFEST.schema.json")
for f in sorted(glob.glob("/verif/evidence/*.json")):
    v(f, "/root/.vp/EVIDENCE.schema.json")
sys.exit(0 if ok else 1)
