// C11 — verified XOR-independence checker.  `check_indep4` is verified by Verus for ALL inputs:
// if it returns true, no XOR of 1, 2, 3 or 4 distinct entries of the key sequence is zero.
// The verified function is then compiled and executed on the real 793-entry Zobrist key table dumped
// from the current tree.  Trusted: Verus/Z3, rustc, the two #[verifier::external_body] I/O functions
// (they carry no specification the proof relies on), the dump.
use vstd::prelude::*;

verus! {

pub open spec fn indep1(s: Seq<u64>) -> bool {
    forall|i: int| 0 <= i < s.len() ==> s[i] != 0
}
pub open spec fn indep2(s: Seq<u64>) -> bool {
    forall|i: int, j: int| 0 <= i < j < s.len() ==> (s[i] ^ s[j]) != 0
}
pub open spec fn indep3(s: Seq<u64>) -> bool {
    forall|i: int, j: int, k: int| 0 <= i < j < k < s.len() ==> (s[i] ^ s[j] ^ s[k]) != 0
}
pub open spec fn indep4_only(s: Seq<u64>) -> bool {
    forall|i: int, j: int, k: int, l: int| 0 <= i < j < k < l < s.len() ==> (s[i] ^ s[j] ^ s[k] ^ s[l]) != 0
}
pub open spec fn indep4(s: Seq<u64>) -> bool {
    indep1(s) && indep2(s) && indep3(s) && indep4_only(s)
}

pub fn check_indep4(keys: &Vec<u64>) -> (ok: bool)
    ensures ok ==> indep4(keys@),
{
    let n = keys.len();
    let mut i: usize = 0;
    while i < n
        invariant
            n == keys.len(), i <= n,
            forall|a: int| 0 <= a < i ==> keys@[a] != 0,
            forall|a: int, b: int| 0 <= a < i && a < b < n ==> (keys@[a] ^ keys@[b]) != 0,
            forall|a: int, b: int, c: int| 0 <= a < i && a < b < c < n ==> (keys@[a] ^ keys@[b] ^ keys@[c]) != 0,
            forall|a: int, b: int, c: int, d: int| 0 <= a < i && a < b < c < d < n ==> (keys@[a] ^ keys@[b] ^ keys@[c] ^ keys@[d]) != 0,
        decreases n - i,
    {
        let ki = keys[i];
        if ki == 0 { return false; }
        let mut j: usize = i + 1;
        while j < n
            invariant
                n == keys.len(), i < n, i < j <= n, ki == keys@[i as int],
                forall|b: int| i < b < j ==> (keys@[i as int] ^ keys@[b]) != 0,
                forall|b: int, c: int| i < b < j && b < c < n ==> (keys@[i as int] ^ keys@[b] ^ keys@[c]) != 0,
                forall|b: int, c: int, d: int| i < b < j && b < c < d < n ==> (keys@[i as int] ^ keys@[b] ^ keys@[c] ^ keys@[d]) != 0,
            decreases n - j,
        {
            let kij = ki ^ keys[j];
            if kij == 0 { return false; }
            let mut k: usize = j + 1;
            while k < n
                invariant
                    n == keys.len(), j < n, j < k <= n, kij == keys@[i as int] ^ keys@[j as int],
                    forall|c: int| j < c < k ==> (keys@[i as int] ^ keys@[j as int] ^ keys@[c]) != 0,
                    forall|c: int, d: int| j < c < k && c < d < n ==> (keys@[i as int] ^ keys@[j as int] ^ keys@[c] ^ keys@[d]) != 0,
                decreases n - k,
            {
                let kijk = kij ^ keys[k];
                if kijk == 0 { return false; }
                let mut l: usize = k + 1;
                while l < n
                    invariant
                        n == keys.len(), k < n, k < l <= n,
                        kijk == keys@[i as int] ^ keys@[j as int] ^ keys@[k as int],
                        forall|d: int| k < d < l ==> (keys@[i as int] ^ keys@[j as int] ^ keys@[k as int] ^ keys@[d]) != 0,
                    decreases n - l,
                {
                    if kijk ^ keys[l] == 0 { return false; }
                    l += 1;
                }
                k += 1;
            }
            j += 1;
        }
        i += 1;
    }
    true
}

#[verifier::external_body]
fn read_keys() -> Vec<u64> {
    use std::io::BufRead;
    let path = std::env::args().nth(1).expect("usage: indep4 <keys-file>");
    let f = std::fs::File::open(path).expect("cannot open keys file");
    std::io::BufReader::new(f).lines().map(|l| l.unwrap()).filter(|l| !l.trim().is_empty())
        .map(|l| u64::from_str_radix(l.trim().trim_start_matches("0x"), 16).expect("bad key")).collect()
}

#[verifier::external_body]
fn report(n: usize, ok: bool) {
    println!("{{\"keys\":{},\"indep4\":{}}}", n, ok);
}

fn main() {
    let keys = read_keys();
    let ok = check_indep4(&keys);
    report(keys.len(), ok);
}

} // verus!
