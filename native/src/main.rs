// verif-native — exhaustive finite case analyses that a proof obligation delegates to computation,
// built against the scratch copy of the current /repo tree (path dependencies), release profile
// with overflow checks on.  Output: one JSON object on the last line of stdout.
#[path = "../../vinj/chess_spec.rs"]
mod chess_spec;
use chess_spec as sp;
use cozy_chess::*;

fn sliders() -> (u64, Option<String>) {
    // O-C05.slider.table: for every square and every subset s of the relevant-blocker mask:
    //   get_rook_moves(sq, s) == geometric definition, and likewise for bishops.
    // (index-in-bounds is implied: an out-of-bounds index panics)
    let mut cases = 0u64;
    for &sq in &Square::ALL {
        let rmask = cozy_chess_types::get_rook_relevant_blockers(sq);
        for s in rmask.iter_subsets() {
            let got = get_rook_moves(sq, s).0;
            let want = sp::rook_attacks(sp::bit(sq as u8), s.0);
            cases += 1;
            if got != want {
                return (cases, Some(format!("rook sq={} occ={:#018x} got={:#018x} want={:#018x}", sq, s.0, got, want)));
            }
        }
        let bmask = cozy_chess_types::get_bishop_relevant_blockers(sq);
        for s in bmask.iter_subsets() {
            let got = get_bishop_moves(sq, s).0;
            let want = sp::bishop_attacks(sp::bit(sq as u8), s.0);
            cases += 1;
            if got != want {
                return (cases, Some(format!("bishop sq={} occ={:#018x} got={:#018x} want={:#018x}", sq, s.0, got, want)));
            }
        }
    }
    (cases, None)
}

fn main() {
    let args: Vec<String> = std::env::args().collect();
    let cmd = args.get(1).map(|s| s.as_str()).unwrap_or("");
    match cmd {
        "sliders" => {
            let (cases, bad) = sliders();
            println!("{{\"cmd\":\"sliders\",\"cases\":{},\"ok\":{},\"witness\":{}}}", cases, bad.is_none(),
                     match bad { Some(w) => format!("\"{}\"", w), None => "null".into() });
        }
        _ => {
            eprintln!("usage: verif-native sliders");
            std::process::exit(2);
        }
    }
}
