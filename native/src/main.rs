// verif-native — exhaustive finite case analyses that a proof obligation delegates to computation,
// built against the scratch copy of the current /repo tree (path dependencies), release profile
// with overflow checks on.  Output: one JSON object on the last line of stdout.
#[path = "../../vinj/chess_spec.rs"]
mod chess_spec;
use chess_spec as sp;
use cozy_chess::*;

fn sliders() -> (u64, Option<String>) {
    // O-C05.slider.table: for every square and every subset s of the relevant-blocker mask:
    //   get_rook_moves(sq, s) == geometric definition, and likewise for bishops.
    // (index-in-bounds is implied: an out-of-bounds index panics)
    let mut cases = 0u64;
    for &sq in &Square::ALL {
        let rmask = cozy_chess_types::get_rook_relevant_blockers(sq);
        for s in rmask.iter_subsets() {
            let got = get_rook_moves(sq, s).0;
            let want = sp::rook_attacks(sp::bit(sq as u8), s.0);
            cases += 1;
            if got != want {
                return (cases, Some(format!("rook sq={} occ={:#018x} got={:#018x} want={:#018x}", sq, s.0, got, want)));
            }
        }
        let bmask = cozy_chess_types::get_bishop_relevant_blockers(sq);
        for s in bmask.iter_subsets() {
            let got = get_bishop_moves(sq, s).0;
            let want = sp::bishop_attacks(sp::bit(sq as u8), s.0);
            cases += 1;
            if got != want {
                return (cases, Some(format!("bishop sq={} occ={:#018x} got={:#018x} want={:#018x}", sq, s.0, got, want)));
            }
        }
    }
    (cases, None)
}

#[cfg(verif_dump)]
fn keys() -> Vec<u64> {
    let (k, n) = cozy_chess::verif_dump_keys();
    k[..n].to_vec()
}
#[cfg(not(verif_dump))]
fn keys() -> Vec<u64> { panic!("built without --cfg verif_dump") }

/// unverified helper: find a dependent subset of at most 4 keys (used only to print a witness after the
/// verified checker has answered false)
fn indep_witness(k: &[u64]) -> Option<Vec<usize>> {
    let n = k.len();
    for i in 0..n {
        if k[i] == 0 { return Some(vec![i]); }
        for j in i + 1..n {
            let a = k[i] ^ k[j];
            if a == 0 { return Some(vec![i, j]); }
            for l in j + 1..n {
                let b = a ^ k[l];
                if b == 0 { return Some(vec![i, j, l]); }
                for m in l + 1..n {
                    if b ^ k[m] == 0 { return Some(vec![i, j, l, m]); }
                }
            }
        }
    }
    None
}

fn main() {
    let args: Vec<String> = std::env::args().collect();
    let cmd = args.get(1).map(|s| s.as_str()).unwrap_or("");
    match cmd {
        "sliders" => {
            let (cases, bad) = sliders();
            println!("{{\"cmd\":\"sliders\",\"cases\":{},\"ok\":{},\"witness\":{}}}", cases, bad.is_none(),
                     match bad { Some(w) => format!("\"{}\"", w), None => "null".into() });
        }
        "keys" => {
            for k in keys() { println!("{:016x}", k); }
        }
        "indep-witness" => {
            let k = keys();
            println!("{{\"cmd\":\"indep-witness\",\"keys\":{},\"witness\":{:?}}}", k.len(), indep_witness(&k));
        }
        _ => {
            eprintln!("usage: verif-native sliders|keys|indep-witness");
            std::process::exit(2);
        }
    }
}
