// verif-native — exhaustive finite case analyses that a proof obligation delegates to computation,
// built against the scratch copy of the current /repo tree (path dependencies), release profile
// with overflow checks on.  Output: one JSON object on the last line of stdout.
#[path = "../../vinj/chess_spec.rs"]
mod chess_spec;
use chess_spec as sp;
use cozy_chess::*;

fn sliders() -> (u64, Option<String>) {
    // O-C05.slider.table: for every square and every subset s of the relevant-blocker mask:
    //   get_rook_moves(sq, s) == geometric definition, and likewise for bishops.
    // (index-in-bounds is implied: an out-of-bounds index panics)
    let mut cases = 0u64;
    for &sq in &Square::ALL {
        let rmask = cozy_chess_types::get_rook_relevant_blockers(sq);
        for s in rmask.iter_subsets() {
            let got = get_rook_moves(sq, s).0;
            let want = sp::rook_attacks(sp::bit(sq as u8), s.0);
            cases += 1;
            if got != want {
                return (cases, Some(format!("rook sq={} occ={:#018x} got={:#018x} want={:#018x}", sq, s.0, got, want)));
            }
        }
        let bmask = cozy_chess_types::get_bishop_relevant_blockers(sq);
        for s in bmask.iter_subsets() {
            let got = get_bishop_moves(sq, s).0;
            let want = sp::bishop_attacks(sp::bit(sq as u8), s.0);
            cases += 1;
            if got != want {
                return (cases, Some(format!("bishop sq={} occ={:#018x} got={:#018x} want={:#018x}", sq, s.0, got, want)));
            }
        }
    }
    (cases, None)
}

#[cfg(verif_dump)]
fn keys() -> Vec<u64> {
    let (k, n) = cozy_chess::verif_dump_keys();
    k[..n].to_vec()
}
#[cfg(not(verif_dump))]
fn keys() -> Vec<u64> { panic!("built without --cfg verif_dump") }

/// unverified helper: find a dependent subset of at most 4 keys (used only to print a witness after the
/// verified checker has answered false)
fn indep_witness(k: &[u64]) -> Option<Vec<usize>> {
    let n = k.len();
    for i in 0..n {
        if k[i] == 0 { return Some(vec![i]); }
        for j in i + 1..n {
            let a = k[i] ^ k[j];
            if a == 0 { return Some(vec![i, j]); }
            for l in j + 1..n {
                let b = a ^ k[l];
                if b == 0 { return Some(vec![i, j, l]); }
                for m in l + 1..n {
                    if b ^ k[m] == 0 { return Some(vec![i, j, l, m]); }
                }
            }
        }
    }
    None
}

/// position record of a real board, read through the public API only
fn pos_of(b: &Board) -> sp::Pos {
    let mut p = sp::Pos { pieces: [0; 6], colors: [0; 2], stm: b.side_to_move() as u8, castle: [[8; 2]; 2],
        ep: b.en_passant().map(|f| f as u8).unwrap_or(8), halfmove: b.halfmove_clock(), fullmove: b.fullmove_number() };
    for (i, &pc) in Piece::ALL.iter().enumerate() { p.pieces[i] = b.pieces(pc).0; }
    for (i, &c) in Color::ALL.iter().enumerate() {
        p.colors[i] = b.colors(c).0;
        let r = b.castle_rights(c);
        p.castle[i] = [r.short.map(|f| f as u8).unwrap_or(8), r.long.map(|f| f as u8).unwrap_or(8)];
    }
    p
}

/// O-C06.start: all 960 x 960 start-position pairs build, are accepted positions, have the Chess960
/// shape (bishops on opposite colours, king between the rooks, rights on both rook files), and their
/// derived fields equal the definitions
fn startpos() -> (u64, Option<String>) {
    let mut cases = 0u64;
    // per-colour shape facts (960 each)
    for n in 0..960u32 {
        let b = match BoardBuilder::chess960_startpos(n).build() { Ok(b) => b, Err(e) => return (cases, Some(format!("n={} build error {:?}", n, e))) };
        let p = pos_of(&b);
        for c in 0..2u8 {
            let back = sp::rank_bb(sp::rel_rank(0, c));
            let bishops = p.of(c, sp::B);
            let light = 0x55AA55AA55AA55AAu64;
            let ok = p.of(c, sp::P) == sp::rank_bb(sp::rel_rank(1, c))
                && (p.colors[c as usize] & !sp::rank_bb(sp::rel_rank(1, c))) & !back == 0
                && bishops.count_ones() == 2 && (bishops & light).count_ones() == 1
                && p.of(c, sp::N).count_ones() == 2 && p.of(c, sp::R).count_ones() == 2
                && p.of(c, sp::Q).count_ones() == 1 && p.of(c, sp::K).count_ones() == 1
                && p.castle[c as usize][0] < 8 && p.castle[c as usize][1] < 8;
            if !ok { return (cases, Some(format!("n={} colour {} has not the Chess960 shape", n, c))); }
        }
        // the classical numbering: 518 is the orthodox array
        if n == 518 && format!("{}", b) != "rnbqkbnr/pppppppp/8/8/8/8/PPPPPPPP/RNBQKBNR w KQkq - 0 1" {
            return (cases, Some("n=518 is not the orthodox start position".into()));
        }
        cases += 1;
    }
    for w in 0..960u32 {
        for bl in 0..960u32 {
            let b = match BoardBuilder::double_chess960_startpos(w, bl).build() {
                Ok(b) => b,
                Err(e) => return (cases, Some(format!("w={} b={} build error {:?}", w, bl, e))),
            };
            let p = pos_of(&b);
            cases += 1;
            if !sp::spec_accept(&p) || p.stm != 0 || p.ep != 8 || p.halfmove != 0 || p.fullmove != 1 {
                return (cases, Some(format!("w={} b={} not an accepted start position", w, bl)));
            }
            if b.checkers().0 != sp::spec_checkers(&p, 0) || b.pinned().0 != sp::spec_pinned(&p, 0) {
                return (cases, Some(format!("w={} b={} derived fields differ from their definition", w, bl)));
            }
            if Board::double_chess960_startpos(w, bl) != b { return (cases, Some(format!("w={} b={} constructor mismatch", w, bl))); }
        }
    }
    (cases, None)
}

fn main() {
    let args: Vec<String> = std::env::args().collect();
    let cmd = args.get(1).map(|s| s.as_str()).unwrap_or("");
    match cmd {
        "sliders" => {
            let (cases, bad) = sliders();
            println!("{{\"cmd\":\"sliders\",\"cases\":{},\"ok\":{},\"witness\":{}}}", cases, bad.is_none(),
                     match bad { Some(w) => format!("\"{}\"", w), None => "null".into() });
        }
        "startpos" => {
            let (cases, bad) = startpos();
            println!("{{\"cmd\":\"startpos\",\"cases\":{},\"ok\":{},\"witness\":{}}}", cases, bad.is_none(),
                     match bad { Some(w) => format!("\"{}\"", w), None => "null".into() });
        }
        "keys" => {
            for k in keys() { println!("{:016x}", k); }
        }
        "indep-witness" => {
            let k = keys();
            println!("{{\"cmd\":\"indep-witness\",\"keys\":{},\"witness\":{:?}}}", k.len(), indep_witness(&k));
        }
        _ => {
            eprintln!("usage: verif-native sliders|keys|indep-witness");
            std::process::exit(2);
        }
    }
}
