// C08 — the FEN parser: field parsers against reference decoders (bounded strings), orchestration of
// from_fen with the field parsers / validators replaced by recording contract stubs, FromStr retry.
// Child module of `board::parse`.  All string quantifiers are BOUNDED (bytes), stated per obligation.
use super::*;
use crate::chess_spec as sp;
use crate::verif_common::*;
use crate::board::verif_board::{mk_board, pos_of};
use crate::board::zobrist::verif_zobrist::mk_zobrist;

/// an arbitrary UTF-8 string of at most N bytes, backed by `buf`
pub(crate) fn any_str<const N: usize>(buf: &mut [u8; N]) -> &str {
    *buf = kani::any();
    let len: usize = kani::any();
    kani::assume(len <= N);
    let r = core::str::from_utf8(&buf[..len]);
    kani::assume(r.is_ok());
    r.unwrap()
}

fn empty_board() -> Board {
    Board { inner: ZobristBoard::empty(), pinned: BitBoard::EMPTY, checkers: BitBoard::EMPTY, halfmove_clock: 0, fullmove_number: 0 }
}

/// reference: decimal number text (optional leading '+', at least one digit), value if <= max
fn ref_number(b: &[u8], max: u32) -> Option<u32> {
    let mut i = 0;
    if b.len() > 0 && b[0] == b'+' { i = 1; }
    if i >= b.len() { return None; }
    let mut v: u32 = 0;
    while i < b.len() {
        if b[i] < b'0' || b[i] > b'9' { return None; }
        v = v * 10 + (b[i] - b'0') as u32;
        if v > max { return None; }
        i += 1;
    }
    Some(v)
}

// O-C08.field.side (bounded <= 3 bytes)
#[kani::proof]
#[kani::unwind(5)]
fn c08_field_side_b3() {
    let mut buf = [0u8; 3];
    let s = any_str(&mut buf);
    let mut b = empty_board();
    let r = Board::parse_side_to_move(&mut b, s);
    let by = s.as_bytes();
    if by.len() == 1 && (by[0] == b'w' || by[0] == b'b') {
        assert!(r.is_ok());
        assert!(b.side_to_move() as u8 == (by[0] == b'b') as u8);
    } else {
        assert!(r.is_err());
    }
}

// O-C08.field.clocks (bounded <= 6 bytes): half-move clock 0..=100, full-move number 1..=65535
#[kani::proof]
#[kani::unwind(8)]
fn c08_field_clocks_b6() {
    let mut buf = [0u8; 6];
    let s = any_str(&mut buf);
    let mut b = empty_board();
    let r = Board::parse_halfmove_clock(&mut b, s);
    match ref_number(s.as_bytes(), 255) {
        Some(v) if v <= 100 => assert!(r.is_ok() && b.halfmove_clock as u32 == v),
        _ => assert!(r.is_err()),
    }
    let mut b2 = empty_board();
    let r2 = Board::parse_fullmove_number(&mut b2, s);
    match ref_number(s.as_bytes(), 65535) {
        Some(v) if v >= 1 => assert!(r2.is_ok() && b2.fullmove_number as u32 == v),
        _ => assert!(r2.is_err()),
    }
}

// O-C08.field.ep (bounded <= 4 bytes): "-" or a square on the rank behind a pawn of the side that
// just moved
#[kani::proof]
#[kani::unwind(6)]
fn c08_field_ep_b4() {
    let mut buf = [0u8; 4];
    let s = any_str(&mut buf);
    let mut b = empty_board();
    let black: bool = kani::any();
    if black { b.inner.toggle_side_to_move(); }
    let r = Board::parse_en_passant(&mut b, s);
    let by = s.as_bytes();
    let want_rank = if black { b'3' } else { b'6' };
    if by.len() == 1 && by[0] == b'-' {
        assert!(r.is_ok() && b.en_passant().is_none());
    } else if by.len() == 2 && by[0] >= b'a' && by[0] <= b'h' && by[1] == want_rank {
        assert!(r.is_ok() && b.en_passant().map(|f| f as u8) == Some(by[0] - b'a'));
    } else {
        assert!(r.is_err());
    }
}

/// reference decoder of a castling field; returns the four right files or None if malformed
fn ref_castle(b: &[u8], shredder: bool, king_file: [u8; 2]) -> Option<[[u8; 2]; 2]> {
    if b.len() == 0 { return None; } // a field is never empty
    let mut rights = [[sp::NOFILE; 2]; 2];
    if b.len() == 1 && b[0] == b'-' { return Some(rights); }
    let mut i = 0;
    while i < b.len() {
        let c = b[i];
        if c >= 0x80 { return None; }
        let white = c >= b'A' && c <= b'Z';
        let lower = if white { c + 32 } else { c };
        let col = if white { 0 } else { 1 };
        let (short, file) = if shredder {
            if lower < b'a' || lower > b'h' { return None; }
            let f = lower - b'a';
            (king_file[col] < f, f)
        } else {
            match lower { b'k' => (true, 7), b'q' => (false, 0), _ => return None }
        };
        let w = if short { 0 } else { 1 };
        if rights[col][w] != sp::NOFILE { return None; }
        rights[col][w] = file;
        i += 1;
    }
    Some(rights)
}

// O-C08.field.castle (bounded <= 5 bytes): both notations, duplicates rejected, the empty field rejected
#[kani::proof]
#[kani::unwind(7)]
fn c08_field_castle_b5() {
    let mut buf = [0u8; 5];
    let s = any_str(&mut buf);
    let shredder: bool = kani::any();
    // a board with one king per side somewhere (the only context the field parser reads)
    let (wk, bk) = (any_idx(64), any_idx(64));
    kani::assume(wk != bk);
    let mut b = empty_board();
    b.inner.xor_square(Piece::King, Color::White, sq(wk));
    b.inner.xor_square(Piece::King, Color::Black, sq(bk));
    let r = Board::parse_castle_rights(&mut b, s, shredder);
    match ref_castle(s.as_bytes(), shredder, [wk & 7, bk & 7]) {
        Some(rights) => {
            assert!(r.is_ok());
            assert!(pos_of(&b).castle == rights);
        }
        None => assert!(r.is_err()),
    }
}

/// reference decoder of a placement field: exactly eight '/'-separated ranks (rank 8 first), each
/// describing exactly eight files with piece letters and digits
fn ref_board(b: &[u8]) -> Option<([u64; 6], [u64; 2])> {
    let mut pieces = [0u64; 6];
    let mut colors = [0u64; 2];
    let mut rank: i32 = 7;
    let mut file: u32 = 0;
    let mut i = 0;
    while i <= b.len() {
        if i == b.len() || b[i] == b'/' {
            if file != 8 { return None; }
            if i == b.len() { break; }
            rank -= 1;
            if rank < 0 { return None; }
            file = 0;
        } else {
            let c = b[i];
            if c >= b'0' && c <= b'9' {
                file += (c - b'0') as u32;
            } else {
                let white = c >= b'A' && c <= b'Z';
                let lower = if white { c + 32 } else { c };
                let p = match lower { b'p' => 0, b'n' => 1, b'b' => 2, b'r' => 3, b'q' => 4, b'k' => 5, _ => return None };
                if file >= 8 { return None; }
                let s = (rank as u32) * 8 + file;
                pieces[p] ^= 1u64 << s;
                colors[if white { 0 } else { 1 }] ^= 1u64 << s;
                file += 1;
            }
        }
        i += 1;
    }
    if rank != 0 { return None; }
    Some((pieces, colors))
}

// O-C08.field.board (bounded <= 17 bytes): exactly 8 ranks of exactly 8 files, faithful decoding
#[kani::proof]
#[kani::unwind(19)]
#[kani::stub(core::slice::memchr::memrchr, simple_memrchr)]
#[kani::stub(core::slice::memchr::memchr, simple_memchr)]
fn c08_field_board_b17() {
    let mut buf = [0u8; 17];
    let s = any_str(&mut buf);
    let mut b = empty_board();
    let r = Board::parse_board(&mut b, s);
    match ref_board(s.as_bytes()) {
        Some((pieces, colors)) => {
            assert!(r.is_ok());
            let p = pos_of(&b);
            assert!(p.pieces == pieces && p.colors == colors);
        }
        None => assert!(r.is_err()),
    }
}

// ---- orchestration: from_fen with every field parser and validator replaced by a recording stub ----
// ORACLE bit i = outcome of stage i: 0 parse_board, 1 parse_side, 2 board_is_valid, 3 checkers_and_pins,
// 4 parse_castle, 5 castle_rights_are_valid, 6 parse_ep, 7 ep_valid, 8 parse_half, 9 half_valid,
// 10 parse_full, 11 full_valid
pub(crate) static mut ORACLE: u16 = 0;
pub(crate) static mut FIELD_LEN: [usize; 6] = [usize::MAX; 6];
pub(crate) static mut SHREDDER_SEEN: u8 = 2;
fn stage(i: u8) -> bool { unsafe { (ORACLE >> i) & 1 == 1 } }
fn res(i: u8) -> Result<(), ()> { if stage(i) { Ok(()) } else { Err(()) } }
pub(crate) fn o_parse_board(_b: &mut Board, s: &str) -> Result<(), ()> { unsafe { FIELD_LEN[0] = s.len(); } res(0) }
pub(crate) fn o_parse_side(_b: &mut Board, s: &str) -> Result<(), ()> { unsafe { FIELD_LEN[1] = s.len(); } res(1) }
pub(crate) fn o_board_valid(_b: &Board) -> bool { stage(2) }
pub(crate) fn o_calc(_b: &Board, _c: Color) -> (BitBoard, BitBoard) { (BitBoard::EMPTY, BitBoard::EMPTY) }
pub(crate) fn o_cp_valid(_b: &Board) -> bool { stage(3) }
pub(crate) fn o_parse_castle(_b: &mut Board, s: &str, shredder: bool) -> Result<(), ()> {
    unsafe { FIELD_LEN[2] = s.len(); SHREDDER_SEEN = shredder as u8; }
    res(4)
}
pub(crate) fn o_castle_valid(_b: &Board) -> bool { stage(5) }
pub(crate) fn o_parse_ep(_b: &mut Board, s: &str) -> Result<(), ()> { unsafe { FIELD_LEN[3] = s.len(); } res(6) }
pub(crate) fn o_ep_valid(_b: &Board) -> bool { stage(7) }
pub(crate) fn o_parse_half(_b: &mut Board, s: &str) -> Result<(), ()> { unsafe { FIELD_LEN[4] = s.len(); } res(8) }
pub(crate) fn o_half_valid(_b: &Board) -> bool { stage(9) }
pub(crate) fn o_parse_full(_b: &mut Board, s: &str) -> Result<(), ()> { unsafe { FIELD_LEN[5] = s.len(); } res(10) }
pub(crate) fn o_full_valid(_b: &Board) -> bool { stage(11) }

fn fen_err_code(e: FenParseError) -> u8 {
    match e {
        FenParseError::InvalidBoard => 0,
        FenParseError::InvalidSideToMove => 1,
        FenParseError::InvalidCastlingRights => 2,
        FenParseError::InvalidEnPassant => 3,
        FenParseError::InvalidHalfMoveClock => 4,
        FenParseError::InvalidFullmoveNumber => 5,
        FenParseError::MissingField => 6,
        FenParseError::TooManyFields => 7,
    }
}
/// which field a stage belongs to (error code)
fn stage_field(i: u8) -> u8 { match i { 0 | 2 | 3 => 0, 1 => 1, 4 | 5 => 2, 6 | 7 => 3, 8 | 9 => 4, _ => 5 } }

// O-C08.orchestration (bounded: records of <= 12 bytes with any number of spaces)
#[kani::proof]
#[kani::unwind(14)]
#[kani::stub(core::slice::memchr::memrchr, simple_memrchr)]
#[kani::stub(core::slice::memchr::memchr, simple_memchr)]
#[kani::stub(crate::board::Board::parse_board, o_parse_board)]
#[kani::stub(crate::board::Board::parse_side_to_move, o_parse_side)]
#[kani::stub(crate::board::Board::board_is_valid, o_board_valid)]
#[kani::stub(crate::board::Board::calculate_checkers_and_pins, o_calc)]
#[kani::stub(crate::board::Board::checkers_and_pins_are_valid, o_cp_valid)]
#[kani::stub(crate::board::Board::parse_castle_rights, o_parse_castle)]
#[kani::stub(crate::board::Board::castle_rights_are_valid, o_castle_valid)]
#[kani::stub(crate::board::Board::parse_en_passant, o_parse_ep)]
#[kani::stub(crate::board::Board::en_passant_is_valid, o_ep_valid)]
#[kani::stub(crate::board::Board::parse_halfmove_clock, o_parse_half)]
#[kani::stub(crate::board::Board::halfmove_clock_is_valid, o_half_valid)]
#[kani::stub(crate::board::Board::parse_fullmove_number, o_parse_full)]
#[kani::stub(crate::board::Board::fullmove_number_is_valid, o_full_valid)]
fn c08_orchestration_b8() {
    let mut buf = [0u8; 8];
    let s = any_str(&mut buf);
    let shredder: bool = kani::any();
    unsafe { ORACLE = kani::any(); }
    let r = Board::from_fen(s, shredder);
    // reference split on ' '
    let by = s.as_bytes();
    let mut nfields = 1usize;
    let mut lens = [0usize; 13];
    // (at most 9 fields fit into 8 bytes)
    let mut i = 0;
    while i < by.len() {
        if by[i] == b' ' { nfields += 1; } else if nfields <= 13 { lens[nfields - 1] += 1; }
        i += 1;
    }
    // the first failing stage among the stages whose field is present
    let oracle = unsafe { ORACLE };
    let bad = (!oracle) & 0x0FFF;
    let n_bad = bad.count_ones();
    let first_bad = bad.trailing_zeros() as u8; // 16 if none
    // number of fields a stage needs
    // number of fields that must be present before a stage runs (the board validators run after the
    // side field has been parsed)
    let need = |st: u8| -> usize { [1usize, 2, 2, 2, 3, 3, 4, 4, 5, 5, 6, 6, 7, 7, 7, 7][(st & 15) as usize] };
    match r {
        Ok(_) => {
            // a board only for exactly six fields with every stage succeeding
            assert!(nfields == 6 && n_bad == 0);
            unsafe {
                assert!(FIELD_LEN[0] == lens[0] && FIELD_LEN[1] == lens[1] && FIELD_LEN[2] == lens[2]
                    && FIELD_LEN[3] == lens[3] && FIELD_LEN[4] == lens[4] && FIELD_LEN[5] == lens[5]);
                assert!(SHREDDER_SEEN == shredder as u8);
            }
        }
        Err(e) => {
            let e = fen_err_code(e);
            assert!(!(nfields == 6 && n_bad == 0));
            // exactly one stage fails and its field is present: the error names that field
            if n_bad == 1 && need(first_bad) <= nfields {
                assert!(e == stage_field(first_bad));
            }
            // every present field is good: too few / too many fields are reported as such
            let mut present_ok = true;
            let mut st = 0u8;
            while st < 12 { if need(st) <= nfields && !stage(st) { present_ok = false; } st += 1; }
            if present_ok && nfields < 6 { assert!(e == 6); }
            if n_bad == 0 && nfields > 6 { assert!(e == 7); }
        }
    }
}

// O-C08.fromstr: FromStr tries FEN first and retries as Shredder-FEN exactly on InvalidCastlingRights
pub(crate) static mut FEN_RESULT: [u8; 2] = [8, 8]; // per notation: 8 = Ok, else error code
pub(crate) static mut FEN_CALLS: [u32; 2] = [0, 0];
pub(crate) static mut FEN_TAG: [u16; 2] = [1, 2];
fn err_of(c: u8) -> FenParseError {
    match c {
        0 => FenParseError::InvalidBoard, 1 => FenParseError::InvalidSideToMove, 2 => FenParseError::InvalidCastlingRights,
        3 => FenParseError::InvalidEnPassant, 4 => FenParseError::InvalidHalfMoveClock, 5 => FenParseError::InvalidFullmoveNumber,
        6 => FenParseError::MissingField, _ => FenParseError::TooManyFields,
    }
}
pub(crate) fn o_from_fen(_fen: &str, shredder: bool) -> Result<Board, FenParseError> {
    unsafe {
        let k = shredder as usize;
        FEN_CALLS[k] += 1;
        if FEN_RESULT[k] == 8 {
            let mut b = empty_board();
            b.fullmove_number = FEN_TAG[k];
            Ok(b)
        } else {
            Err(err_of(FEN_RESULT[k]))
        }
    }
}
#[kani::proof]
#[kani::stub(crate::board::Board::from_fen, o_from_fen)]
fn c08_fromstr_retry() {
    use core::str::FromStr;
    unsafe {
        FEN_RESULT = [any_idx(9), any_idx(9)];
        let r = Board::from_str("x");
        let (plain, shred) = (FEN_RESULT[0], FEN_RESULT[1]);
        if plain == 8 {
            assert!(FEN_CALLS == [1, 0]);
            assert!(r.is_ok() && r.unwrap().fullmove_number == FEN_TAG[0]);
        } else if plain == 2 {
            assert!(FEN_CALLS == [1, 1]);
            match r {
                Ok(b) => assert!(shred == 8 && b.fullmove_number == FEN_TAG[1]),
                Err(e) => assert!(shred != 8 && fen_err_code(e) == shred),
            }
        } else {
            assert!(FEN_CALLS == [1, 0]);
            assert!(r.is_err() && fen_err_code(r.err().unwrap()) == plain);
        }
    }
}

// O-C08.field.board at fixed lengths (ASCII bytes): 13 = seven ranks of "8", 15 = eight ranks, 17
macro_rules! board_fixed {
    ($($name:ident: $n:expr, $u:expr;)*) => {$(
        #[kani::proof]
        #[kani::unwind($u)]
        #[kani::stub(core::slice::memchr::memrchr, simple_memrchr)]
        #[kani::stub(core::slice::memchr::memchr, simple_memchr)]
        fn $name() {
            let buf: [u8; $n] = kani::any();
            let mut i = 0;
            while i < $n { kani::assume(buf[i] < 0x80); i += 1; }
            let s = core::str::from_utf8(&buf).unwrap();
            let mut b = empty_board();
            let r = Board::parse_board(&mut b, s);
            match ref_board(&buf) {
                Some((pieces, colors)) => {
                    assert!(r.is_ok());
                    let p = pos_of(&b);
                    assert!(p.pieces == pieces && p.colors == colors);
                }
                None => assert!(r.is_err()),
            }
        }
    )*};
}
board_fixed! { c08_field_board_len13: 13, 15; c08_field_board_len15: 15, 17; c08_field_board_len5: 5, 7; c08_field_board_len3: 3, 5; }

// =====================================================================================================
// C07 — Display for Board.  E3: inside board/parse.rs `write!` is shadowed (cfg(kani)) by `vwrite!`, which
// appends to a ghost byte buffer instead of going through core::fmt.  Verified: everything the library
// decides about the text (order, run-length counting, separators, castling letters, EP square, clocks).
// Trusted: core::fmt renders `char` as itself and u8/u16/i32 as unpadded decimal (re-implemented below);
// `{:#}` only sets Formatter::alternate().
pub(crate) static mut OUT: [u8; 96] = [0; 96];
pub(crate) static mut OUT_LEN: usize = 0;
pub(crate) fn out_push(c: u8) {
    unsafe {
        if OUT_LEN < 96 { OUT[OUT_LEN] = c; }
        OUT_LEN += 1;
    }
}
pub(crate) trait VEmit { fn vemit(&self); }
impl VEmit for char { fn vemit(&self) { let c = *self as u32; assert!(c < 0x80); out_push(c as u8); } }
fn emit_dec(mut v: u32) {
    let mut d = [0u8; 5];
    let mut n = 0;
    loop {
        d[n] = b'0' + (v % 10) as u8;
        n += 1;
        v /= 10;
        if v == 0 { break; }
    }
    while n > 0 { n -= 1; out_push(d[n]); }
}
impl VEmit for i32 { fn vemit(&self) { assert!(*self >= 0); emit_dec(*self as u32); } }
impl VEmit for u8 { fn vemit(&self) { emit_dec(*self as u32); } }
impl VEmit for u16 { fn vemit(&self) { emit_dec(*self as u32); } }
impl VEmit for Color { fn vemit(&self) { char::from(*self).vemit(); } }
impl VEmit for Square { fn vemit(&self) { char::from(self.file()).vemit(); char::from(self.rank()).vemit(); } }

macro_rules! vwrite {
    ($f:expr, "{}", $a:expr) => {{ let _ = &$f; $crate::board::parse::verif_parse::VEmit::vemit(&$a); core::fmt::Result::Ok(()) }};
    ($f:expr, "/") => {{ let _ = &$f; $crate::board::parse::verif_parse::out_push(b'/'); core::fmt::Result::Ok(()) }};
    ($f:expr, "-") => {{ let _ = &$f; $crate::board::parse::verif_parse::out_push(b'-'); core::fmt::Result::Ok(()) }};
    ($f:expr, " -") => {{ let _ = &$f; $crate::board::parse::verif_parse::out_push(b' '); $crate::board::parse::verif_parse::out_push(b'-'); core::fmt::Result::Ok(()) }};
    ($f:expr, " {} ", $a:expr) => {{ let _ = &$f; $crate::board::parse::verif_parse::out_push(b' '); $crate::board::parse::verif_parse::VEmit::vemit(&$a); $crate::board::parse::verif_parse::out_push(b' '); core::fmt::Result::Ok(()) }};
    ($f:expr, " {}", $a:expr) => {{ let _ = &$f; $crate::board::parse::verif_parse::out_push(b' '); $crate::board::parse::verif_parse::VEmit::vemit(&$a); core::fmt::Result::Ok(()) }};
    ($f:expr, " {} {}", $a:expr, $b:expr) => {{ let _ = &$f; $crate::board::parse::verif_parse::out_push(b' '); $crate::board::parse::verif_parse::VEmit::vemit(&$a); $crate::board::parse::verif_parse::out_push(b' '); $crate::board::parse::verif_parse::VEmit::vemit(&$b); core::fmt::Result::Ok(()) }};
    // anything else (the error Display impls generated by simple_error!) goes to the real macro
    ($($t:tt)*) => { core::write!($($t)*) };
}
pub(crate) use vwrite;

/// reference emitter: the canonical six-field record of a position
fn ref_fen(p: &sp::Pos, shredder: bool, out: &mut [u8; 96]) -> usize {
    let mut n = 0usize;
    fn push_to(out: &mut [u8; 96], c: u8, n: &mut usize) { if *n < 96 { out[*n] = c; } *n += 1; }
    macro_rules! push { ($c:expr, $n:expr) => { push_to(out, $c, $n) }; }
    let mut r = 8;
    while r > 0 {
        r -= 1;
        let mut empty = 0u8;
        let mut f = 0u8;
        while f < 8 {
            let s = r * 8 + f;
            let pc = p.piece_at(s);
            if p.occ() & sp::bit(s) != 0 && pc < 6 {
                if empty > 0 { push!(b'0' + empty, &mut n); empty = 0; }
                let l = [b'p', b'n', b'b', b'r', b'q', b'k'][pc as usize];
                push!(if p.colors[0] & sp::bit(s) != 0 { l - 32 } else { l }, &mut n);
            } else {
                empty += 1;
            }
            f += 1;
        }
        if empty > 0 { push!(b'0' + empty, &mut n); }
        if r > 0 { push!(b'/', &mut n); }
    }
    push!(b' ', &mut n);
    push!(if p.stm == 0 { b'w' } else { b'b' }, &mut n);
    push!(b' ', &mut n);
    let mut any = false;
    let mut c = 0usize;
    while c < 2 {
        let mut w = 0usize;
        while w < 2 {
            let file = p.castle[c][w];
            if file < 8 {
                let l = if shredder { b'a' + file } else if w == 0 { b'k' } else { b'q' };
                push!(if c == 0 { l - 32 } else { l }, &mut n);
                any = true;
            }
            w += 1;
        }
        c += 1;
    }
    if !any { push!(b'-', &mut n); }
    push!(b' ', &mut n);
    if p.ep < 8 {
        push!(b'a' + p.ep, &mut n);
        push!(if p.stm == 0 { b'6' } else { b'3' }, &mut n);
    } else {
        push!(b'-', &mut n);
    }
    push!(b' ', &mut n);
    // clocks
    fn dec(out: &mut [u8; 96], mut v: u32, n: &mut usize) {
        let mut d = [0u8; 5];
        let mut k = 0;
        loop { d[k] = b'0' + (v % 10) as u8; k += 1; v /= 10; if v == 0 { break; } }
        while k > 0 { k -= 1; if *n < 96 { out[*n] = d[k]; } *n += 1; }
    }
    dec(out, p.halfmove as u32, &mut n);
    push!(b' ', &mut n);
    dec(out, p.fullmove as u32, &mut n);
    n
}

// O-C07.canon: the text produced for any accepted board is the canonical six-field record of its position
// (both plain and Shredder notation)
board_proof! {
    #[kani::unwind(10)]
    fn c07_display_canon() {
        use core::fmt::Write;
        let p = crate::board::verif_board::any_inv_pos();
        let b = mk_board(&p);
        let shredder: bool = kani::any();
        unsafe { OUT_LEN = 0; }
        let mut sink = crate::util::verif_util::Buf::<4>::new();
        let r = if shredder { core::write!(sink, "{:#}", b) } else { core::write!(sink, "{}", b) };
        assert!(r.is_ok());
        let mut want = [0u8; 96];
        let n = ref_fen(&p, shredder, &mut want);
        unsafe {
            assert!(OUT_LEN == n && n <= 96);
            let i: usize = kani::any();
            kani::assume(i < n && i < 96);
            assert!(OUT[i] == want[i]);
        }
    }
}

// simple reference implementations of core's word-at-a-time byte searches (used as stubs: CBMC cannot
// digest the alignment arithmetic of the originals); contract: index of the last / first occurrence
pub(crate) fn simple_memrchr(x: u8, text: &[u8]) -> Option<usize> {
    let mut i = text.len();
    while i > 0 {
        i -= 1;
        if text[i] == x { return Some(i); }
    }
    None
}
pub(crate) fn simple_memchr(x: u8, text: &[u8]) -> Option<usize> {
    let mut i = 0;
    while i < text.len() {
        if text[i] == x { return Some(i); }
        i += 1;
    }
    None
}
