// C20 — SAN / UCI helpers.  Child module of `util`.
use super::*;
use crate::chess_spec as sp;
use crate::verif_common::*;
use crate::board::verif_board::{any_inv_pos, mk_board};

pub(crate) struct Buf<const N: usize> {
    pub b: [u8; N],
    pub n: usize,
}
impl<const N: usize> Buf<N> {
    pub fn new() -> Self { Buf { b: [0; N], n: 0 } }
}
impl<const N: usize> core::fmt::Write for Buf<N> {
    fn write_str(&mut self, s: &str) -> core::fmt::Result {
        let bytes = s.as_bytes();
        let mut i = 0;
        while i < bytes.len() {
            if self.n >= N { return Err(core::fmt::Error); }
            self.b[self.n] = bytes[i];
            self.n += 1;
            i += 1;
        }
        Ok(())
    }
}

/// castling rights are orthodox: every right has the king on the e-file and the rook on a/h
fn orthodox(p: &sp::Pos) -> bool {
    let mut c = 0u8;
    let mut ok = true;
    while c < 2 {
        let r = p.castle[c as usize];
        if r[0] < 8 || r[1] < 8 {
            let kf = sp::file_of(p.king_bb(c).trailing_zeros() as u8);
            ok = ok && kf == 4 && (r[0] == 8 || r[0] == 7) && (r[1] == 8 || r[1] == 0);
        }
        c += 1;
    }
    ok
}

// O-C20.uci: on orthodox-castling boards the UCI writer emits standard UCI (castling as king e-file to
// g/c-file) through the real core::fmt, and the UCI reader maps the text back to the move — for every
// accepted board and every legal move (unbounded: the text has 4 or 5 bytes)
board_proof! {
    #[kani::unwind(10)]
    fn c20_uci_roundtrip() {
        use core::fmt::Write;
        let p = any_inv_pos();
        kani::assume(orthodox(&p));
        let m = any_move();
        let q = mv_of(m);
        kani::assume(sp::spec_legal(&p, q));
        let b = mk_board(&p);
        let shown = display_uci_move(&b, m);
        let mut w = Buf::<8>::new();
        assert!(write!(w, "{}", shown).is_ok());
        // reference: standard UCI text
        let c = p.stm;
        let castle = p.colors[c as usize] & sp::bit(q.to) != 0;
        let to = if castle {
            sp::sq_of(if sp::file_of(q.to) > sp::file_of(q.from) { 6 } else { 2 }, sp::rank_of(q.from))
        } else { q.to };
        assert!(w.n == if q.promo < 6 { 5 } else { 4 });
        assert!(w.b[0] == b'a' + sp::file_of(q.from) && w.b[1] == b'1' + sp::rank_of(q.from));
        assert!(w.b[2] == b'a' + sp::file_of(to) && w.b[3] == b'1' + sp::rank_of(to));
        if q.promo < 6 {
            let letter = match q.promo { 1 => b'n', 2 => b'b', 3 => b'r', _ => b'q' };
            assert!(w.b[4] == letter);
        }
        let s = core::str::from_utf8(&w.b[..w.n]).unwrap();
        let back = parse_uci_move(&b, s);
        assert!(back.ok() == Some(m));
        kani::cover!(castle);
    }
}
