// C01 / C16 / C04 / C12 — move generation against the rules.  Child module of `board::movegen`
// (sees the private add_*_legals / king_safe_on / can_castle).
use super::*;
use crate::chess_spec as sp;
use crate::verif_common::*;
use crate::board::verif_board::{any_inv_pos, mk_board};

// ---- ghost state of the listener protocol ----------------------------------------------------------
pub(crate) static mut P0: sp::Pos = sp::Pos { pieces: [0; 6], colors: [0; 2], stm: 0, castle: [[8; 2]; 2], ep: 8, halfmove: 0, fullmove: 1 };
pub(crate) static mut Q: sp::Mv = sp::Mv { from: 0, to: 0, promo: 6 };
pub(crate) static mut QLEGAL: bool = false; // spec_legal(P0, Q) && MASK has Q.from
pub(crate) static mut MASK: u64 = 0;
pub(crate) static mut PLAN_A: u64 = 0; // ordinary batches from these squares abort
pub(crate) static mut PLAN_B: u64 = 0; // en-passant batches from these squares abort
pub(crate) static mut SEEN: u32 = 0; // delivered batches that denote Q
pub(crate) static mut NB_FROM: u32 = 0; // delivered batches whose origin is Q.from
pub(crate) static mut CALLS: u32 = 0;
pub(crate) static mut ABORTED: bool = false;
/// 0 = ghost listener (C01/C16), 1 = the caller's own listener always returns true (C12),
/// 2 = ghost listener, counting invariant only (O-C16.calls-bound.*)
pub(crate) static mut MODE: u8 = 0;
static mut E_SEEN: u32 = 0;
static mut E_NB: u32 = 0;
static mut E_CALLS: u32 = 0;

fn ep_dest_bb(p: &sp::Pos) -> u64 { p.ep_bb() }
/// is Q an en-passant capture query (pawn onto the EP square)?
fn is_ep_query() -> bool {
    unsafe { P0.ep < 8 && Q.to == P0.ep_square() && P0.piece_at(Q.from) == sp::P as u8 }
}

/// the ghost listener: checks the per-batch contract, counts, aborts according to the plan
pub(crate) fn listen(pm: PieceMoves) -> bool {
    unsafe {
        assert!(!ABORTED, "listener called again after it returned true");
        assert!(!pm.to.is_empty(), "empty batch delivered");
        let from = pm.from as u8;
        assert!((MASK >> from) & 1 == 1, "batch origin outside the mask");
        assert!((P0.colors[P0.stm as usize] >> from) & 1 == 1 && P0.piece_at(from) == pm.piece as u8,
                "batch piece is not the mover's piece on the origin square");
        CALLS = CALLS.saturating_add(1);
        if from == Q.from {
            NB_FROM = NB_FROM.saturating_add(1);
            if sp::batch_has(pm.piece as u8, from, pm.to.0, Q) {
                SEEN = SEEN.saturating_add(1);
            }
        }
        let is_ep_batch = pm.piece == Piece::Pawn && pm.to.0 == ep_dest_bb(&P0) && pm.to.0 != 0;
        let plan = if is_ep_batch { PLAN_B } else { PLAN_A };
        let abort = (plan >> from) & 1 == 1;
        if abort {
            ABORTED = true;
        }
        abort
    }
}

// ---- loop-cut hooks for the piece loops (ids: 1 pawn unpinned, 2 pawn pinned, 3 pawn en passant,
//      4 knight, 5 slider unpinned, 6 slider pinned) -------------------------------------------------
pub(crate) mod cut_mg {
    use super::*;
    pub fn active() -> bool { cut_active() }
    fn contrib(id: u8, processed: BitBoard) -> bool {
        unsafe {
            let class = match id { 1 | 2 => !is_ep_query(), 3 => is_ep_query(), _ => true };
            (processed.0 >> Q.from) & 1 == 1 && class && QLEGAL
        }
    }
    fn inv(id: u8, processed: BitBoard) -> bool {
        if inv_off() { return true; }
        unsafe {
            if MODE == 1 {
                // the caller's listener returns true on the first batch: while the loops are still
                // running nothing was delivered, so no processed square has a legal move
                return !contrib(id, processed);
            }
            if MODE == 2 {
                // counting only: at most one batch per processed origin square
                return !ABORTED && CALLS <= E_CALLS + processed.0.count_ones();
            }
            !ABORTED
                && SEEN == E_SEEN + contrib(id, processed) as u32
                && NB_FROM <= E_NB + ((processed.0 >> Q.from) & 1) as u32
                && CALLS <= E_CALLS + processed.0.count_ones()
        }
    }
    pub fn init(_set: BitBoard, id: u8) {
        unsafe { E_SEEN = SEEN; E_NB = NB_FROM; E_CALLS = CALLS; }
        assert!(inv(id, BitBoard::EMPTY), "loop-inv-init movegen");
    }
    pub fn havoc(set: BitBoard, id: u8) -> BitBoard {
        unsafe {
            SEEN = kani::any();
            NB_FROM = kani::any();
            CALLS = kani::any();
            kani::assume(SEEN <= 64 && NB_FROM <= 64 && CALLS <= 64);
        }
        let rem = BitBoard(kani::any::<u64>() & set.0);
        kani::assume(inv(id, set - rem));
        rem
    }
    pub fn step(set: BitBoard, rem: BitBoard, x: Square, id: u8) {
        assert!(inv(id, (set - rem) | x.bitboard()), "loop-inv-step movegen");
        kani::assume(false);
    }
}

// king destination loop: `for to in get_king_moves(our_king) & !our_pieces { if safe { moves |= to } }`
pub(crate) mod cut_king {
    use super::*;
    pub fn active() -> bool { cut_active() }
    fn inv(processed: BitBoard, moves: &BitBoard) -> bool {
        if inv_off() { return true; }
        unsafe {
            let c = P0.stm;
            let kb = P0.king_bb(c);
            // squares attacked by the opponent with the king lifted off the board
            let danger = sp::attacked_by(&P0, P0.occ() & !kb, 1 - c);
            moves.0 == processed.0 & !danger
        }
    }
    pub fn init(_set: BitBoard, moves: &mut BitBoard) {
        assert!(inv(BitBoard::EMPTY, moves), "loop-inv-init king");
    }
    pub fn havoc(set: BitBoard, moves: &mut BitBoard) -> BitBoard {
        *moves = BitBoard(kani::any());
        let rem = BitBoard(kani::any::<u64>() & set.0);
        kani::assume(inv(set - rem, moves));
        rem
    }
    pub fn step(set: BitBoard, rem: BitBoard, x: Square, moves: &mut BitBoard) {
        assert!(inv((set - rem) | x.bitboard(), moves), "loop-inv-step king");
        kani::assume(false);
    }
}

// ---- harness family ---------------------------------------------------------------------------------
/// kind: 0..5 = own piece of that kind on Q.from, 6 = Q.from holds no own piece
/// mode: 0 = not in check, 1 = single check, 2 = double check
pub(crate) fn setup(kind: u8, mode: u8) -> Board {
    let p = any_inv_pos();
    let q = mv_of(any_move());
    let mask: u64 = kani::any();
    let plan_a: u64 = kani::any();
    let plan_b: u64 = kani::any();
    let own = p.colors[p.stm as usize];
    if kind < 6 {
        kani::assume(own & sp::bit(q.from) != 0 && p.piece_at(q.from) == kind);
    } else {
        kani::assume(own & sp::bit(q.from) == 0);
    }
    let n = sp::spec_checkers(&p, p.stm).count_ones();
    kani::assume(if mode == 0 { n == 0 } else if mode == 1 { n == 1 } else { n >= 2 });
    unsafe {
        P0 = p;
        Q = q;
        MASK = mask;
        PLAN_A = plan_a;
        PLAN_B = plan_b;
        QLEGAL = sp::spec_legal(&p, q) && (mask >> q.from) & 1 == 1;
        SEEN = 0; NB_FROM = 0; CALLS = 0; ABORTED = false; MODE = 0;
    }
    mk_board(&p)
}

fn gen_contract(kind: u8, mode: u8) {
    let b = setup(kind, mode);
    cut_on();
    let mask = BitBoard(unsafe { MASK });
    let r = b.generate_moves_for(mask, listen);
    unsafe {
        // abort contract: returns true exactly when the listener asked to stop (and it was never
        // called again afterwards: asserted inside the listener)
        assert!(r == ABORTED);
        // exactly the legal moves with origin in the mask: the query is delivered once iff legal
        if !ABORTED {
            assert!(SEEN == QLEGAL as u32);
        } else {
            assert!(SEEN <= QLEGAL as u32);
        }
        // at most one ordinary batch per origin square, plus one en-passant batch for a pawn that
        // attacks the en-passant square
        let ep_capable = P0.piece_at(Q.from) == sp::P as u8
            && sp::pawn_attacks(sp::bit(Q.from), P0.stm) & P0.ep_bb() != 0;
        assert!(NB_FROM <= 1 + ep_capable as u32);
    }
}

// O-C16.calls-bound.<mode>: the whole path with the counting invariant only (MODE 2): every cut loop adds at
// most one batch per processed origin square (step VCs), the loops run over disjoint subsets of the mover's
// pieces plus the (at most two) pawns attacking the en-passant square, the king function delivers at most
// one batch, an accepted board has at most 16 pieces per side: never more than 18 listener calls.
fn calls_bound(mode: u8) {
    let p = any_inv_pos();
    let mask: u64 = kani::any();
    let plan_a: u64 = kani::any();
    let plan_b: u64 = kani::any();
    let n = sp::spec_checkers(&p, p.stm).count_ones();
    kani::assume(if mode == 0 { n == 0 } else if mode == 1 { n == 1 } else { n >= 2 });
    unsafe {
        P0 = p;
        Q = mv_of(any_move());
        MASK = mask;
        PLAN_A = plan_a;
        PLAN_B = plan_b;
        QLEGAL = false;
        SEEN = 0; NB_FROM = 0; CALLS = 0; ABORTED = false; MODE = 2;
    }
    let b = mk_board(&p);
    cut_on();
    let r = b.generate_moves_for(BitBoard(mask), listen);
    unsafe {
        assert!(r == ABORTED);
        assert!(CALLS <= 18, "more than 18 batches");
    }
}
board_proof! { #[kani::unwind(9)] fn c16_calls_bound_0() { calls_bound(0); } }
board_proof! { #[kani::unwind(9)] fn c16_calls_bound_1() { calls_bound(1); } }
board_proof! { #[kani::unwind(9)] fn c16_calls_bound_2() { calls_bound(2); } }

macro_rules! gen_family {
    ($($name:ident: $k:expr, $m:expr;)*) => {$(
        board_proof! { #[kani::unwind(9)] fn $name() { gen_contract($k, $m); } }
    )*};
}
gen_family! {
    c01_gen_pawn_0: 0, 0; c01_gen_pawn_1: 0, 1; c01_gen_pawn_2: 0, 2;
    c01_gen_knight_0: 1, 0; c01_gen_knight_1: 1, 1; c01_gen_knight_2: 1, 2;
    c01_gen_bishop_0: 2, 0; c01_gen_bishop_1: 2, 1; c01_gen_bishop_2: 2, 2;
    c01_gen_rook_0: 3, 0; c01_gen_rook_1: 3, 1; c01_gen_rook_2: 3, 2;
    c01_gen_queen_0: 4, 0; c01_gen_queen_1: 4, 1; c01_gen_queen_2: 4, 2;
    c01_gen_king_0: 5, 0; c01_gen_king_1: 5, 1; c01_gen_king_2: 5, 2;
    c01_gen_none_0: 6, 0; c01_gen_none_1: 6, 1; c01_gen_none_2: 6, 2;
}

// =====================================================================================================
// C04 — is_legal(mv) == legality by the rules, for every accepted board and every move value.
// The pawn branch runs the real add_pawn_legals loops on a one-square mask (uncut, completely unwound:
// unwinding assertions prove that one iteration suffices).
fn is_legal_contract(kind: u8) {
    let p = any_inv_pos();
    let m = any_move();
    let q = mv_of(m);
    let own = p.colors[p.stm as usize];
    if kind < 6 {
        kani::assume(own & sp::bit(q.from) != 0 && p.piece_at(q.from) == kind);
    } else {
        kani::assume(own & sp::bit(q.from) == 0);
    }
    let b = mk_board(&p);
    assert!(b.is_legal(m) == sp::spec_legal(&p, q));
}
macro_rules! is_legal_family {
    ($($name:ident: $k:expr;)*) => {$(
        board_proof! { #[kani::unwind(9)] fn $name() { is_legal_contract($k); } }
    )*};
}
is_legal_family! {
    c04_is_legal_pawn: 0; c04_is_legal_knight: 1; c04_is_legal_bishop: 2; c04_is_legal_rook: 3;
    c04_is_legal_queen: 4; c04_is_legal_king: 5; c04_is_legal_none: 6;
}

// =====================================================================================================
// C12 — status().  The real status() runs generation with its own listener `|_| true`; the piece
// loops are cut with the invariant "no processed square has a legal move" (MODE 1).
fn status_code(s: GameStatus) -> u8 {
    match s { GameStatus::Won => 0, GameStatus::Drawn => 1, GameStatus::Ongoing => 2 }
}
fn status_contract(kind: u8) {
    let p = any_inv_pos();
    let q = mv_of(any_move());
    let own = p.colors[p.stm as usize];
    kani::assume(own & sp::bit(q.from) != 0 && p.piece_at(q.from) == kind);
    unsafe {
        P0 = p; Q = q; MASK = !0; PLAN_A = 0; PLAN_B = 0;
        QLEGAL = sp::spec_legal(&p, q);
        MODE = 1;
    }
    let b = mk_board(&p);
    cut_on();
    let r = status_code(b.status());
    let in_check = sp::spec_checkers(&p, p.stm) != 0;
    let with_move = sp::spec_status(true, in_check, p.halfmove);
    let without = sp::spec_status(false, in_check, p.halfmove);
    // the answer is one of the two rows of the table ...
    assert!(r == with_move || r == without);
    // ... and it is the "has a legal move" row whenever some legal move exists (Q is arbitrary)
    if unsafe { QLEGAL } {
        assert!(r == with_move);
    }
    kani::cover!(r == 0);
    kani::cover!(r == 1 && !in_check && without == 1 && with_move == 2);
}
macro_rules! status_family {
    ($($name:ident: $k:expr;)*) => {$(
        board_proof! { #[kani::unwind(9)] fn $name() { status_contract($k); } }
    )*};
}
status_family! {
    c12_status_pawn: 0; c12_status_knight: 1; c12_status_bishop: 2; c12_status_rook: 3;
    c12_status_queen: 4; c12_status_king: 5;
}

// O-C12.status.double-check: in double check the exact answer has a closed form (only king moves can be
// legal; castling is impossible): status() == table(king has a safe destination, in check, clock).
// The two oracle facts used are proved alongside for a universally quantified move.
board_proof! {
    #[kani::unwind(9)]
    fn c12_status_double_check() {
        let p = any_inv_pos();
        kani::assume(sp::spec_checkers(&p, p.stm).count_ones() >= 2);
        let q = mv_of(any_move());
        let c = p.stm;
        let kb = p.king_bb(c);
        let own = p.colors[c as usize];
        let danger = sp::attacked_by(&p, p.occ() & !kb, 1 - c);
        let safe = sp::king_attacks(kb) & !own & !danger;
        // oracle lemma: in double check a move is legal iff it is a king step onto a safe square
        let king_step = sp::bit(q.from) == kb && safe & sp::bit(q.to) != 0 && q.promo == sp::NOPIECE;
        assert!(sp::spec_legal(&p, q) == king_step);
        unsafe {
            P0 = p; Q = q; MASK = !0; PLAN_A = 0; PLAN_B = 0;
            QLEGAL = sp::spec_legal(&p, q);
            MODE = 1;
        }
        let b = mk_board(&p);
        cut_on();
        let r = status_code(b.status());
        assert!(r == sp::spec_status(safe != 0, true, p.halfmove));
        kani::cover!(safe == 0);
        kani::cover!(safe != 0 && p.halfmove >= 100);
    }
}

// O-C12.status.table: status() is the Won/Drawn/Ongoing table applied to the answer of ONE call of
// generate_moves (replaced by a recording contract stub; its contract is O-C01/O-C16 + L-exists)
pub(crate) static mut GEN_ORACLE: bool = false;
pub(crate) static mut GEN_CALLS: u32 = 0;
pub(crate) fn rec_generate_moves<F: FnMut(PieceMoves) -> bool>(_b: &Board, _listener: F) -> bool {
    unsafe {
        GEN_CALLS += 1;
        GEN_ORACLE
    }
}
#[kani::proof]
#[kani::unwind(9)]
#[kani::stub(crate::board::Board::generate_moves, rec_generate_moves)]
fn c12_status_table() {
    let p = any_pos_raw();
    let mut b = mk_board(&p);
    b.checkers = BitBoard(kani::any());
    unsafe { GEN_ORACLE = kani::any(); GEN_CALLS = 0; }
    let r = status_code(b.status());
    unsafe {
        assert!(GEN_CALLS == 1);
        assert!(r == sp::spec_status(GEN_ORACLE, b.checkers.0 != 0, p.halfmove));
    }
}

// =====================================================================================================
// Per-function contracts (quick tier of C01 / C16): each add_*_legals function called directly with the
// ghost listener.  Contract: returns true exactly when the listener aborted; without abort the query move
// is delivered exactly once iff it is legal, its origin is in the mask AND its origin holds the piece kind
// this function is responsible for (never delivered otherwise); per-batch contract inside the listener.
// The composition (dispatch on the number of checkers, the six calls in sequence) is the whole-path family
// c01_gen_* (thorough tier).
fn fn_setup(min_checkers: u32, max_checkers: u32) -> Board {
    let p = any_inv_pos();
    let q = mv_of(any_move());
    let mask: u64 = kani::any();
    let plan_a: u64 = kani::any();
    let plan_b: u64 = kani::any();
    let n = sp::spec_checkers(&p, p.stm).count_ones();
    kani::assume(n >= min_checkers && n <= max_checkers);
    unsafe {
        P0 = p; Q = q; MASK = mask; PLAN_A = plan_a; PLAN_B = plan_b;
        QLEGAL = sp::spec_legal(&p, q) && (mask >> q.from) & 1 == 1;
        SEEN = 0; NB_FROM = 0; CALLS = 0; ABORTED = false; MODE = 0;
    }
    mk_board(&p)
}
fn fn_post(kind: u8, r: bool) {
    unsafe {
        assert!(r == ABORTED);
        let mine = (P0.colors[P0.stm as usize] >> Q.from) & 1 == 1 && P0.piece_at(Q.from) == kind;
        if !ABORTED {
            assert!(SEEN == (QLEGAL && mine) as u32);
        } else {
            assert!(SEEN <= (QLEGAL && mine) as u32);
        }
        let ep_capable = P0.piece_at(Q.from) == sp::P as u8
            && sp::pawn_attacks(sp::bit(Q.from), P0.stm) & P0.ep_bb() != 0;
        assert!(NB_FROM <= 1 + ep_capable as u32);
    }
}
macro_rules! fn_family {
    ($($name:ident: $kind:expr, $lo:expr, $hi:expr, |$b:ident, $m:ident, $l:ident| $call:expr;)*) => {$(
        board_proof! {
            #[kani::unwind(9)]
            fn $name() {
                let $b = fn_setup($lo, $hi);
                cut_on();
                let $m = BitBoard(unsafe { MASK });
                let mut listener = listen;
                let $l = &mut listener;
                let r = $call;
                fn_post($kind, r);
            }
        }
    )*};
}
fn_family! {
    c01_fn_pawn_0: 0, 0, 0, |b, m, l| b.add_pawn_legals::<_, false>(m, l);
    c01_fn_pawn_1: 0, 1, 1, |b, m, l| b.add_pawn_legals::<_, true>(m, l);
    c01_fn_knight_0: 1, 0, 0, |b, m, l| b.add_knight_legals::<_, false>(m, l);
    c01_fn_knight_1: 1, 1, 1, |b, m, l| b.add_knight_legals::<_, true>(m, l);
    c01_fn_bishop_0: 2, 0, 0, |b, m, l| b.add_slider_legals::<slider::Bishop, _, false>(m, l);
    c01_fn_bishop_1: 2, 1, 1, |b, m, l| b.add_slider_legals::<slider::Bishop, _, true>(m, l);
    c01_fn_rook_0: 3, 0, 0, |b, m, l| b.add_slider_legals::<slider::Rook, _, false>(m, l);
    c01_fn_rook_1: 3, 1, 1, |b, m, l| b.add_slider_legals::<slider::Rook, _, true>(m, l);
    c01_fn_queen_0: 4, 0, 0, |b, m, l| b.add_slider_legals::<slider::Queen, _, false>(m, l);
    c01_fn_queen_1: 4, 1, 1, |b, m, l| b.add_slider_legals::<slider::Queen, _, true>(m, l);
    c01_fn_king_0: 5, 0, 0, |b, m, l| b.add_king_legals::<_, false>(m, l);
    c01_fn_king_1: 5, 1, 64, |b, m, l| b.add_king_legals::<_, true>(m, l);
}

// O-C01.dispatch: generate_moves_for against RECORDING CONTRACT STUBS of the six generator functions:
// with n = number of checkers, it calls (n = 0) every function once with IN_CHECK = false, (n = 1) every
// function once with IN_CHECK = true, (n >= 2) only the king function with IN_CHECK = true — always with
// the caller's mask, stopping at the first call that reports an abort and returning true exactly then.
pub(crate) static mut D_CALLED: u8 = 0; // bit k: the function for kind k was called
pub(crate) static mut D_BAD: bool = false; // duplicate call, wrong mask, wrong IN_CHECK, or call after abort
pub(crate) static mut D_ABORT_ON: u8 = 0; // oracle: the functions whose bit is set report an abort
pub(crate) static mut D_ABORTED: bool = false;
pub(crate) static mut D_MASK: u64 = 0;
pub(crate) static mut D_IN_CHECK: bool = false;
fn d_record(kind: u8, in_check: bool, mask: BitBoard) -> bool {
    unsafe {
        if D_ABORTED || (D_CALLED >> kind) & 1 == 1 || mask.0 != D_MASK || in_check != D_IN_CHECK { D_BAD = true; }
        D_CALLED |= 1 << kind;
        let abort = (D_ABORT_ON >> kind) & 1 == 1;
        if abort { D_ABORTED = true; }
        abort
    }
}
pub(crate) fn d_pawn<F: FnMut(PieceMoves) -> bool, const IN_CHECK: bool>(_b: &Board, mask: BitBoard, _l: &mut F) -> bool { d_record(0, IN_CHECK, mask) }
pub(crate) fn d_knight<F: FnMut(PieceMoves) -> bool, const IN_CHECK: bool>(_b: &Board, mask: BitBoard, _l: &mut F) -> bool { d_record(1, IN_CHECK, mask) }
pub(crate) fn d_slider<P: slider::SlidingPiece, F: FnMut(PieceMoves) -> bool, const IN_CHECK: bool>(_b: &Board, mask: BitBoard, _l: &mut F) -> bool { d_record(P::PIECE as u8, IN_CHECK, mask) }
pub(crate) fn d_king<F: FnMut(PieceMoves) -> bool, const IN_CHECK: bool>(_b: &Board, mask: BitBoard, _l: &mut F) -> bool { d_record(5, IN_CHECK, mask) }

#[kani::proof]
#[kani::stub(crate::board::Board::add_pawn_legals, d_pawn)]
#[kani::stub(crate::board::Board::add_knight_legals, d_knight)]
#[kani::stub(crate::board::Board::add_slider_legals, d_slider)]
#[kani::stub(crate::board::Board::add_king_legals, d_king)]
fn c01_dispatch() {
    let p = any_pos_raw();
    let mut b = mk_board(&p);
    b.checkers = BitBoard(kani::any());
    let mask: u64 = kani::any();
    let n = b.checkers.0.count_ones();
    unsafe {
        D_CALLED = 0; D_BAD = false; D_ABORTED = false;
        D_ABORT_ON = kani::any();
        D_MASK = mask;
        D_IN_CHECK = n >= 1;
    }
    let r = b.generate_moves_for(BitBoard(mask), |_| false);
    // generate_moves is the same with the full mask
    unsafe {
        assert!(!D_BAD);
        assert!(r == D_ABORTED);
        let want: u8 = if n >= 2 { 1 << 5 } else { 0b111111 };
        assert!(D_CALLED & !want == 0);
        if !r { assert!(D_CALLED == want); }
    }
}
#[kani::proof]
#[kani::stub(crate::board::Board::add_pawn_legals, d_pawn)]
#[kani::stub(crate::board::Board::add_knight_legals, d_knight)]
#[kani::stub(crate::board::Board::add_slider_legals, d_slider)]
#[kani::stub(crate::board::Board::add_king_legals, d_king)]
fn c01_dispatch_full_mask() {
    let p = any_pos_raw();
    let mut b = mk_board(&p);
    b.checkers = BitBoard(kani::any());
    let n = b.checkers.0.count_ones();
    unsafe {
        D_CALLED = 0; D_BAD = false; D_ABORTED = false;
        D_ABORT_ON = kani::any();
        D_MASK = !0;
        D_IN_CHECK = n >= 1;
    }
    let r = b.generate_moves(|_| false);
    unsafe {
        assert!(!D_BAD && r == D_ABORTED);
        let want: u8 = if n >= 2 { 1 << 5 } else { 0b111111 };
        assert!(D_CALLED & !want == 0);
        if !r { assert!(D_CALLED == want); }
    }
}
