// C18 — bitboards behave as sets of squares.  Child module of `cozy_chess_types::bitboard`
// (sees the private state of the two iterators).  Every harness is loop-free over unconstrained
// symbolic 64-bit words = full domain.
use super::*;
use crate::*;

/// ground truth for membership: bit `s` of the word
fn mem(x: u64, s: u8) -> bool {
    (x >> s) & 1 == 1
}
fn any_sq_idx() -> u8 {
    let s: u8 = kani::any();
    kani::assume(s < 64);
    s
}
fn sq(s: u8) -> Square {
    Square::index(s as usize)
}
/// ground truth for size: number of squares that are members
fn count(x: u64) -> u32 {
    let mut n = 0u32;
    let mut i = 0u8;
    while i < 64 {
        if mem(x, i) {
            n += 1;
        }
        i += 1;
    }
    n
}

// O-C18.has: membership test == bit test, for every bitboard and square
#[kani::proof]
fn c18_has() {
    let x: u64 = kani::any();
    let s = any_sq_idx();
    assert!(BitBoard(x).has(sq(s)) == mem(x, s));
    // a square's own bitboard has exactly that square
    let t = any_sq_idx();
    assert!(mem(sq(s).bitboard().0, t) == (s == t));
}

// O-C18.ops: the five operators are the set operations (element-wise, s universally quantified)
#[kani::proof]
fn c18_ops() {
    let a: u64 = kani::any();
    let b: u64 = kani::any();
    let s = any_sq_idx();
    let (x, y) = (BitBoard(a), BitBoard(b));
    assert!(mem((x | y).0, s) == (mem(a, s) || mem(b, s)));
    assert!(mem((x & y).0, s) == (mem(a, s) && mem(b, s)));
    assert!(mem((x ^ y).0, s) == (mem(a, s) != mem(b, s)));
    assert!(mem((x - y).0, s) == (mem(a, s) && !mem(b, s)));
    assert!(mem((!x).0, s) == !mem(a, s));
    assert!(!mem(BitBoard::EMPTY.0, s) && mem(BitBoard::FULL.0, s));
}

// O-C18.assign: the assigning forms give the same result as the plain forms and change nothing else
#[kani::proof]
fn c18_assign_ops() {
    let a: u64 = kani::any();
    let b: u64 = kani::any();
    let (x, y) = (BitBoard(a), BitBoard(b));
    let mut t = x; t |= y; assert!(t == (x | y));
    let mut t = x; t &= y; assert!(t == (x & y));
    let mut t = x; t ^= y; assert!(t == (x ^ y));
    let mut t = x; t -= y; assert!(t == (x - y));
    assert!(y.0 == b && x.0 == a);
}

// O-C18.relations: subset / superset / disjoint / empty agree with membership
#[kani::proof]
fn c18_relations() {
    let a: u64 = kani::any();
    let b: u64 = kani::any();
    let s = any_sq_idx();
    let (x, y) = (BitBoard(a), BitBoard(b));
    // => direction with s universally quantified
    if x.is_subset(y) { assert!(!mem(a, s) || mem(b, s)); }
    if x.is_disjoint(y) { assert!(!(mem(a, s) && mem(b, s))); }
    if x.is_empty() { assert!(!mem(a, s)); }
    // <= direction: a witness square exists when the relation is reported false
    if !x.is_subset(y) {
        let w = (a & !b).trailing_zeros();
        assert!(w < 64 && mem(a, w as u8) && !mem(b, w as u8));
    }
    if !x.is_disjoint(y) {
        let w = (a & b).trailing_zeros();
        assert!(w < 64 && mem(a, w as u8) && mem(b, w as u8));
    }
    if !x.is_empty() {
        let w = a.trailing_zeros();
        assert!(w < 64 && mem(a, w as u8));
    }
    assert!(x.is_superset(y) == y.is_subset(x));
}

// O-C18.len: size == number of member squares
#[kani::proof]
fn c18_len() {
    let a: u64 = kani::any();
    assert!(BitBoard(a).len() == count(a));
}

// <private-state>
// O-C18.iter.step: `next` returns the lowest member, removes exactly it, `len` is the exact
// remaining length (ascending order / exactly-once / exhaustion follow by induction on the size)
#[kani::proof]
fn c18_iter_step() {
    let a: u64 = kani::any();
    let mut it = BitBoard(a).iter();
    assert!(it.0 .0 == a);
    assert!(ExactSizeIterator::len(&it) == count(a) as usize);
    let (lo, hi) = it.size_hint();
    assert!(lo == count(a) as usize && hi == Some(lo));
    let r = it.next();
    match r {
        None => {
            assert!(a == 0);
            assert!(it.0 .0 == 0);
        }
        Some(s) => {
            let s = s as u8;
            assert!(mem(a, s));
            // nothing smaller is a member
            let t = any_sq_idx();
            if t < s { assert!(!mem(a, t)); }
            // exactly s was removed
            assert!(it.0 .0 == a & !(1u64 << s));
            assert!(ExactSizeIterator::len(&it) + 1 == count(a) as usize);
        }
    }
    // IntoIterator is the same iterator
    let it2 = BitBoard(a).into_iter();
    assert!(it2.0 .0 == a);
    // next_square is the same "lowest member" function
    match BitBoard(a).next_square() {
        None => assert!(a == 0),
        Some(s) => assert!(a != 0 && s as u32 == a.trailing_zeros()),
    }
}

// </private-state>
// O-C18.collect (bounded stand-in: up to 4 squares): collecting squares builds their set
#[kani::proof]
#[kani::unwind(6)]
fn c18_collect_bounded4() {
    let s = [any_sq_idx(), any_sq_idx(), any_sq_idx(), any_sq_idx()];
    let n: usize = kani::any();
    kani::assume(n <= 4);
    let t = any_sq_idx();
    let bb: BitBoard = s[..n].iter().map(|&i| sq(i)).collect();
    let mut expect = false;
    let mut i = 0;
    while i < 4 {
        if i < n && s[i] == t { expect = true; }
        i += 1;
    }
    assert!(mem(bb.0, t) == expect);
}

// <private-state>
// O-C18.subsets.step: the carry-rippler step on the real `next`
#[kani::proof]
fn c18_subsets_step() {
    let set: u64 = kani::any();
    let cur: u64 = kani::any();
    kani::assume(cur & !set == 0);
    // the first state is (set, ∅, not finished)
    let first = BitBoard(set).iter_subsets();
    assert!(first.set.0 == set && first.subset.0 == 0 && !first.finished);
    let mut it = BitBoardSubsetIter { set: BitBoard(set), subset: BitBoard(cur), finished: false };
    let r = it.next();
    assert!(r == Some(BitBoard(cur)));
    assert!(it.set.0 == set);
    let nxt = it.subset.0;
    assert!(nxt & !set == 0);
    if cur == set {
        // the largest subset was just delivered: iteration ends
        assert!(it.finished && nxt == 0);
    } else {
        // the next subset is the least subset of `set` that is numerically greater
        assert!(!it.finished && nxt > cur);
        let t: u64 = kani::any();
        if t & !set == 0 && t > cur { assert!(t >= nxt); }
    }
    // a finished iterator stays finished and yields nothing
    let mut done = BitBoardSubsetIter { set: BitBoard(set), subset: BitBoard(cur), finished: true };
    assert!(done.next().is_none() && done.finished);
}

// </private-state>
// O-C18.flips: rank / file flips move each member to its mirrored square and are involutions
#[kani::proof]
fn c18_flips() {
    let a: u64 = kani::any();
    let s = any_sq_idx();
    let x = BitBoard(a);
    let (f, r) = (s & 7, s >> 3);
    let mirror_rank = ((7 - r) << 3) | f;
    let mirror_file = (r << 3) | (7 - f);
    assert!(mem(x.flip_ranks().0, mirror_rank) == mem(a, s));
    assert!(mem(x.flip_files().0, mirror_file) == mem(a, s));
    assert!(x.flip_ranks().flip_ranks() == x);
    assert!(x.flip_files().flip_files() == x);
}

// O-C18.subsets.prefix (public API only, robust against a change of the iterator's representation):
// for every set, the first outputs of iter_subsets() are the empty set and then, step by step, the numeric
// successor among the subsets; the iterator ends exactly after the full set has been delivered.
// (bounded prefix of 4 outputs; the unbounded statement is O-C18.subsets.step + induction)
#[kani::proof]
fn c18_subsets_prefix4() {
    let set: u64 = kani::any();
    let mut it = BitBoard(set).iter_subsets();
    let mut prev: Option<u64> = None;
    let mut k = 0;
    while k < 4 {
        let r = it.next();
        match prev {
            None => assert!(r == Some(BitBoard::EMPTY)),
            Some(p) => {
                if p == set {
                    // the full set was the last subset
                    assert!(r.is_none());
                } else {
                    let succ = ((p | !set).wrapping_add(1)) & set;
                    assert!(r == Some(BitBoard(succ)));
                }
            }
        }
        match r {
            Some(b) => prev = Some(b.0),
            None => break,
        }
        k += 1;
    }
}

// O-C18.iter.prefix (public API only): the first outputs of iteration are the members in ascending order
#[kani::proof]
fn c18_iter_prefix3() {
    let a: u64 = kani::any();
    let mut it = BitBoard(a).into_iter();
    let mut rest = a;
    let mut k = 0;
    while k < 3 {
        assert!(ExactSizeIterator::len(&it) == rest.count_ones() as usize);
        let r = it.next();
        if rest == 0 {
            assert!(r.is_none());
            break;
        }
        let low = rest.trailing_zeros();
        assert!(r.map(|s| s as u32) == Some(low));
        rest &= rest - 1;
        k += 1;
    }
}
