// Validators (C06 soundness half, C03 constructor half).  Child module of `board::validate`.
// Each validator is given the contract  "returns true  <=>  the corresponding fact of C06 holds",
// with the fact stated independently in the oracle (spec/chess_spec.rs).
use super::*;
use crate::chess_spec as sp;
use crate::verif_common::*;
use crate::board::verif_board::{mk_board, pos_of, pinned_by, slider_checkers_in};

// ---- loop-cut hooks ---------------------------------------------------------------------------------
// calculate_checkers_and_pins: `for attacker in their_attackers { .. checkers |= ..; pinned |= .. }`
pub(crate) mod cut_calc {
    use super::*;
    pub fn active() -> bool { cut_active() }
    fn inv(processed: BitBoard, board: &Board, color: Color, checkers: &BitBoard, pinned: &BitBoard) -> bool {
        if inv_off() { return true; }
        let p = pos_of(board);
        let c = color as u8;
        checkers.0 == slider_checkers_in(&p, c, processed.0) && pinned.0 == pinned_by(&p, c, processed.0)
    }
    pub fn init(_set: BitBoard, board: &Board, color: Color, checkers: &mut BitBoard, pinned: &mut BitBoard) {
        assert!(inv(BitBoard::EMPTY, board, color, checkers, pinned), "loop-inv-init calculate_checkers_and_pins");
    }
    pub fn havoc(set: BitBoard, board: &Board, color: Color, checkers: &mut BitBoard, pinned: &mut BitBoard) -> BitBoard {
        *checkers = BitBoard(kani::any());
        *pinned = BitBoard(kani::any());
        let rem = BitBoard(kani::any::<u64>() & set.0);
        kani::assume(inv(set - rem, board, color, checkers, pinned));
        rem
    }
    pub fn step(set: BitBoard, rem: BitBoard, x: Square, board: &Board, color: Color, checkers: &mut BitBoard, pinned: &mut BitBoard) {
        assert!(inv((set - rem) | x.bitboard(), board, color, checkers, pinned), "loop-inv-step calculate_checkers_and_pins");
        kani::assume(false);
    }
}

/// checkers admitted next to an en-passant file: the pushed pawn, or the first piece the king sees
/// along a ray that passes through the pawn's (empty) origin square
pub(crate) fn ep_good_checkers(p: &sp::Pos) -> u64 {
    let c = p.stm & 1;
    let them = 1 - c;
    let origin = sp::sq_of(p.ep, sp::rel_rank(1, them));
    let pawn = sp::bit(sp::sq_of(p.ep, sp::rel_rank(3, them)));
    let kb = p.king_bb(c);
    let mut through = 0u64;
    let mut d = 0u8;
    while d < 8 {
        let r = sp::ray(kb, p.occ(), d);
        if r & sp::bit(origin) != 0 {
            through |= r & p.occ();
        }
        d += 1;
    }
    pawn | through
}

// en_passant_is_valid: `for checker in self.checkers() { soft_assert!(..) }` — stateless invariant:
// every processed checker is admitted
pub(crate) mod cut_epv {
    use super::*;
    pub fn active() -> bool { cut_active() }
    fn inv(processed: BitBoard, board: &Board) -> bool {
        if inv_off() { return true; }
        let p = pos_of(board);
        processed.0 & !ep_good_checkers(&p) == 0
    }
    pub fn init(_set: BitBoard, board: &Board) {
        assert!(inv(BitBoard::EMPTY, board), "loop-inv-init en_passant_is_valid");
    }
    pub fn havoc(set: BitBoard, board: &Board) -> BitBoard {
        let rem = BitBoard(kani::any::<u64>() & set.0);
        kani::assume(inv(set - rem, board));
        rem
    }
    pub fn step(set: BitBoard, rem: BitBoard, x: Square, board: &Board) {
        assert!(inv((set - rem) | x.bitboard(), board), "loop-inv-step en_passant_is_valid");
        kani::assume(false);
    }
}

/// a raw position whose placement is what the callers of the later validators have already checked
fn any_placed_pos() -> sp::Pos {
    let p = any_pos_raw();
    kani::assume(sp::placement_consistent(&p) && sp::material_ok(&p));
    p
}

// O-C03.calc: calculate_checkers_and_pins(c) == (checkers, pins) by definition, for either colour
board_proof! {
    #[kani::unwind(9)]
    fn c03_calc() {
        let p = any_placed_pos();
        let b = mk_board(&p);
        let c = any_color();
        cut_on();
        let (checkers, pinned) = b.calculate_checkers_and_pins(c);
        // (the enemy king is not reported as a checker; accepted boards keep the kings apart)
        assert!(checkers.0 == sp::spec_checkers(&p, c as u8) & !p.pieces[sp::K]);
        assert!(pinned.0 == sp::spec_pinned(&p, c as u8));
    }
}

// O-C06.board_is_valid: true exactly for consistent placements with one king per side, kings not
// adjacent, <= 16 pieces, <= 8 pawns, no pawn on rank 1/8, and the side not to move not in check
board_proof! {
    #[kani::unwind(9)]
    fn c06_board_is_valid() {
        let p = any_pos_raw();
        let b = mk_board(&p);
        cut_on();
        let r = b.board_is_valid();
        let expect = sp::placement_consistent(&p) && sp::material_ok(&p) && sp::kings_apart(&p)
            && !sp::in_check(&p, 1 - p.stm);
        assert!(r == expect);
    }
}

// O-C06.castle_rights_are_valid: every right is backed by that side's king on its back rank and its own
// rook on the named file on the correct side of the king
board_proof! {
    #[kani::unwind(9)]
    fn c06_castle_rights_are_valid() {
        let p = any_placed_pos();
        let b = mk_board(&p);
        assert!(b.castle_rights_are_valid() == sp::rights_ok(&p));
    }
}

// O-C06.en_passant_is_valid: EP file backed by an enemy pawn that could just have advanced two squares
// (origin and passed square empty) + the reachability gate on the checkers
board_proof! {
    #[kani::unwind(9)]
    fn c06_en_passant_is_valid() {
        let p = any_placed_pos();
        let b = mk_board(&p); // checkers field == definition, as the constructors have set it
        cut_on();
        let r = b.en_passant_is_valid();
        assert!(r == (sp::ep_ok(&p) && sp::ep_checkers_ok(&p)));
    }
}

// O-C06.checkers_and_pins_are_valid: stored checkers/pins equal their definition and <= 2 checkers
board_proof! {
    #[kani::unwind(9)]
    fn c06_checkers_and_pins_are_valid() {
        let p = any_placed_pos();
        kani::assume(sp::kings_apart(&p));
        let mut b = mk_board(&p);
        b.checkers = BitBoard(kani::any());
        b.pinned = BitBoard(kani::any());
        cut_on();
        let r = b.checkers_and_pins_are_valid();
        let expect = b.checkers.0 == sp::spec_checkers(&p, p.stm) && b.pinned.0 == sp::spec_pinned(&p, p.stm)
            && sp::spec_checkers(&p, p.stm).count_ones() <= 2;
        assert!(r == expect);
    }
}

// O-C06.clocks
#[kani::proof]
fn c06_clocks_valid() {
    let p = any_pos_raw();
    let b = mk_board(&p);
    assert!(b.halfmove_clock_is_valid() == (p.halfmove <= 100));
    assert!(b.fullmove_number_is_valid() == (p.fullmove > 0));
}

// oracle guard: the two formulations of "attacked" used by the oracle agree (forward union of attack
// sets vs. reverse lookup from the target square), for every placement and occupancy
#[kani::proof]
#[kani::unwind(9)]
fn spec_attack_duality() {
    let p = any_pos_raw();
    let occ: u64 = kani::any();
    let t = any_idx(64);
    let by = any_idx(2);
    let fwd = (sp::attacked_by(&p, occ, by) >> t) & 1 == 1;
    let rev = sp::attackers_of(&p, occ, sp::bit(t), by) != 0;
    assert!(fwd == rev);
}
