// Board-level contracts: C02 (successor), C03 (checkers/pins), C10 (hash), C14 (null move),
// C15 (checked play), C12 (status), C13 (same_position).  Child module of `board`.
use super::*;
use crate::chess_spec as sp;
use crate::verif_common::*;
use super::zobrist::verif_zobrist::{mk_zobrist, pos_of_z, spec_hash, hash_of_z, same_outside, delta_hash, features_of, features_xor, delta};

// ---- abstraction function and representation invariant ----------------------------------------
pub(crate) fn pos_of(b: &Board) -> sp::Pos {
    pos_of_z(&b.inner, b.halfmove_clock, b.fullmove_number)
}

/// the real Board that represents position `p` with the derived fields set to their definitions
pub(crate) fn mk_board_h(p: &sp::Pos) -> Board {
    Board {
        inner: mk_zobrist(p, spec_hash(p)),
        pinned: BitBoard(sp::spec_pinned(p, p.stm)),
        checkers: BitBoard(sp::spec_checkers(p, p.stm)),
        halfmove_clock: p.halfmove,
        fullmove_number: p.fullmove,
    }
}
/// same, but with an arbitrary stored hash (for obligations that do not depend on the hash)
pub(crate) fn mk_board(p: &sp::Pos) -> Board {
    // under verification the stored hash is arbitrary (hash obligations use the writer contracts);
    // in a concrete replay against the real code (test build) it is the position's real hash
    let h_any: u64 = kani::any();
    let h = if cfg!(test) { spec_hash(p) } else { h_any };
    Board {
        inner: mk_zobrist(p, h),
        pinned: BitBoard(sp::spec_pinned(p, p.stm)),
        checkers: BitBoard(sp::spec_checkers(p, p.stm)),
        halfmove_clock: p.halfmove,
        fullmove_number: p.fullmove,
    }
}

/// derived fields equal their definitions
pub(crate) fn derived_ok(b: &Board) -> bool {
    let p = pos_of(b);
    b.checkers.0 == sp::spec_checkers(&p, p.stm) && b.pinned.0 == sp::spec_pinned(&p, p.stm)
}

/// INV: an accepted board (every board the library hands out)
pub(crate) fn any_inv_pos() -> sp::Pos {
    let p = any_pos_raw();
    kani::assume(sp::spec_accept(&p));
    p
}

// ---- pins / checkers restricted to a subset of the candidate sliders (loop invariants) ---------
/// pieces pinned to the king of colour `c` by an enemy slider that lies in `sub`
pub(crate) fn pinned_by(p: &sp::Pos, c: u8, sub: u64) -> u64 {
    let occ = p.occ();
    let them = 1 - c;
    let rq = p.of(them, sp::R) | p.of(them, sp::Q);
    let bq = p.of(them, sp::B) | p.of(them, sp::Q);
    let kb = p.king_bb(c);
    let mut pinned = 0u64;
    let mut d = 0u8;
    while d < 8 {
        let first = sp::ray(kb, occ, d) & occ;
        let second = sp::ray(first, occ, d) & occ;
        let sliders = if d & 1 == 0 { rq } else { bq };
        if second & sliders & sub != 0 {
            pinned |= first;
        }
        d += 1;
    }
    pinned
}
/// enemy sliders in `sub` that give check to the king of colour `c`
pub(crate) fn slider_checkers_in(p: &sp::Pos, c: u8, sub: u64) -> u64 {
    let occ = p.occ();
    let them = 1 - c;
    let rq = p.of(them, sp::R) | p.of(them, sp::Q);
    let bq = p.of(them, sp::B) | p.of(them, sp::Q);
    let kb = p.king_bb(c);
    ((sp::rook_attacks(kb, occ) & rq) | (sp::bishop_attacks(kb, occ) & bq)) & sub
}

// ---- loop-cut hooks ---------------------------------------------------------------------------------
// null_move: `for square in their_attackers { .. board.pinned |= between .. }`
pub(crate) mod cut_null {
    use super::*;
    pub fn active() -> bool { cut_active() }
    fn inv(processed: BitBoard, board: &Board) -> bool {
        if inv_off() { return true; }
        let p = pos_of(board);
        board.pinned.0 == pinned_by(&p, p.stm, processed.0)
    }
    pub fn init(_set: BitBoard, board: &mut Board) {
        assert!(inv(BitBoard::EMPTY, board), "loop-inv-init null_move");
    }
    pub fn havoc(set: BitBoard, board: &mut Board) -> BitBoard {
        board.pinned = BitBoard(kani::any());
        let rem = BitBoard(kani::any::<u64>() & set.0);
        kani::assume(inv(set - rem, board));
        rem
    }
    pub fn step(set: BitBoard, rem: BitBoard, x: Square, board: &mut Board) {
        assert!(inv((set - rem) | x.bitboard(), board), "loop-inv-step null_move");
        kani::assume(false);
    }
}

// play_unchecked: `for square in our_attackers { .. self.checkers |= ..; self.pinned |= .. }`
pub(crate) static mut PLAY_C0: u64 = 0;
pub(crate) mod cut_play {
    use super::*;
    pub fn active() -> bool { cut_active() }
    fn inv(processed: BitBoard, board: &Board) -> bool {
        if inv_off() { return true; }
        let p = pos_of(board);
        // the side to move has not been toggled yet: the king in question is the opponent's
        let c = 1 - p.stm;
        let c0 = unsafe { PLAY_C0 };
        board.pinned.0 == pinned_by(&p, c, processed.0)
            && board.checkers.0 == c0 | slider_checkers_in(&p, c, processed.0)
    }
    pub fn init(_set: BitBoard, board: &mut Board) {
        unsafe { PLAY_C0 = board.checkers.0; }
        assert!(inv(BitBoard::EMPTY, board), "loop-inv-init play_unchecked");
    }
    pub fn havoc(set: BitBoard, board: &mut Board) -> BitBoard {
        board.pinned = BitBoard(kani::any());
        board.checkers = BitBoard(kani::any());
        let rem = BitBoard(kani::any::<u64>() & set.0);
        kani::assume(inv(set - rem, board));
        rem
    }
    pub fn step(set: BitBoard, rem: BitBoard, x: Square, board: &mut Board) {
        assert!(inv((set - rem) | x.bitboard(), board), "loop-inv-step play_unchecked");
        kani::assume(false);
    }
}

// =====================================================================================================
// C14 — null move
board_proof! {
    fn c14_null_move() {
        let p = any_inv_pos();
        let b = mk_board(&p);
        cut_on();
        let r = b.null_move();
        let in_check = sp::spec_checkers(&p, p.stm) != 0;
        kani::cover!(in_check);
        kani::cover!(!in_check && sp::spec_pinned(&sp::spec_null(&p), 1 - p.stm) != 0);
        match r {
            None => assert!(in_check),
            Some(n) => {
                assert!(!in_check);
                let q = sp::spec_null(&p);
                // every field of the position, whole-state comparison
                assert!(pos_of(&n) == q);
                // derived state equals that of a freshly constructed board of the position
                assert!(n.checkers.0 == sp::spec_checkers(&q, q.stm));
                assert!(n.checkers.0 == 0);
                assert!(n.pinned.0 == sp::spec_pinned(&q, q.stm));
                // and the result is again an accepted board
                assert!(sp::spec_accept(&q));
            }
        }
    }
}

// O-C10.null: the hash after a null move is the hash of the resulting position (real key arithmetic:
// placement untouched, hash delta == keys of the changed side / EP features)
board_proof! {
    fn c10_null_hash() {
        let p = any_inv_pos();
        let b = mk_board(&p);
        let h0 = hash_of_z(&b.inner);
        cut_on();
        set_inv_off();
        if let Some(n) = b.null_move() {
            let q = pos_of(&n);
            let none = [0u8; 5];
            assert!(sp::same_placement(&p, &q));
            assert!(hash_of_z(&n.inner) == h0 ^ delta_hash(&p, &q, &none) ^ 0);
            kani::cover!(p.ep < 8);
        }
    }
}

// =====================================================================================================
// play_unchecked family (C02 successor, C03 checkers/pins, C06 acceptance preserved, C10 hash)
//
// kind 0..5 = the moved piece (non-castling moves), 6 = castling (king "captures" own rook)
pub(crate) fn any_legal(kind: u8) -> (sp::Pos, Move) {
    let p = any_inv_pos();
    let m = any_move();
    let mv = mv_of(m);
    let castle = p.colors[p.stm as usize] & sp::bit(mv.to) != 0;
    if kind == 6 {
        kani::assume(castle);
    } else {
        kani::assume(!castle && p.piece_at(mv.from) == kind);
    }
    kani::assume(sp::spec_legal(&p, mv));
    (p, m)
}

fn play_post_position(kind: u8) {
    let (p, m) = any_legal(kind);
    let mut b = mk_board(&p);
    cut_on();
    set_inv_off();
    b.play_unchecked(m);
    // whole-state comparison with the successor prescribed by the rules
    assert!(pos_of(&b) == sp::spec_play(&p, mv_of(m)));
}

fn play_post_derived(kind: u8) {
    let (p, m) = any_legal(kind);
    let mut b = mk_board(&p);
    cut_on();
    b.play_unchecked(m);
    // q is the successor computed by the REAL code; its correctness is O-C02.play.*
    let q = pos_of(&b);
    assert!(b.checkers.0 == sp::spec_checkers(&q, q.stm));
    assert!(b.pinned.0 == sp::spec_pinned(&q, q.stm));
}

fn play_post_accept(kind: u8) {
    let (p, m) = any_legal(kind);
    // INV is inductive: the successor prescribed by the rules is again an accepted position
    let q = sp::spec_play(&p, mv_of(m));
    assert!(sp::spec_accept(&q));
}

fn play_post_hash(kind: u8) {
    let (p, m) = any_legal(kind);
    let mut b = mk_board(&p);
    let h0 = hash_of_z(&b.inner);
    cut_on();
    set_inv_off();
    b.play_unchecked(m);
    let q = pos_of(&b);
    // the squares a move can touch: origin, destination, en-passant victim, castling destinations
    let mv = mv_of(m);
    let c = p.stm;
    let back = sp::rel_rank(0, c);
    let victim = if p.ep < 8 { sp::sq_of(p.ep, sp::rel_rank(3, 1 - c)) } else { mv.from };
    let short = sp::file_of(mv.to) > sp::file_of(mv.from);
    let kd = sp::sq_of(if short { 6 } else { 2 }, back);
    let rd = sp::sq_of(if short { 5 } else { 3 }, back);
    let touched = if kind == 6 { [mv.from, mv.to, kd, rd, mv.from] } else { [mv.from, mv.to, victim, mv.from, mv.from] };
    assert!(same_outside(&p, &q, &touched));
    assert!(hash_of_z(&b.inner) == h0 ^ delta_hash(&p, &q, &touched));
}

/// hash accounting through the writer contracts (fast; applicable while the four writers are the only
/// code that writes the hash field — checked mechanically by the driver on every run)
fn play_post_hash_ghost(kind: u8) {
    let (p, m) = any_legal(kind);
    let mut b = mk_board(&p);
    cut_on();
    set_inv_off();
    b.play_unchecked(m);
    let q = pos_of(&b);
    assert!(features_xor(&features_of(&p), &delta()) == features_of(&q));
}
hash_proof! { fn c10g_play_pawn() { play_post_hash_ghost(0); } }
hash_proof! { fn c10g_play_knight() { play_post_hash_ghost(1); } }
hash_proof! { fn c10g_play_bishop() { play_post_hash_ghost(2); } }
hash_proof! { fn c10g_play_rook() { play_post_hash_ghost(3); } }
hash_proof! { fn c10g_play_queen() { play_post_hash_ghost(4); } }
hash_proof! { fn c10g_play_king() { play_post_hash_ghost(5); } }
hash_proof! { fn c10g_play_castle() { play_post_hash_ghost(6); } }

macro_rules! play_family {
    ($($k:expr => $pos:ident, $der:ident, $acc:ident, $hash:ident;)*) => {$(
        board_proof! { fn $pos() { play_post_position($k); } }
        board_proof! { fn $der() { play_post_derived($k); } }
        board_proof! { fn $acc() { play_post_accept($k); } }
        board_proof! { fn $hash() { play_post_hash($k); } }
    )*};
}
play_family! {
    0 => c02_play_pawn, c03_play_pawn, c06_play_pawn, c10_play_pawn;
    1 => c02_play_knight, c03_play_knight, c06_play_knight, c10_play_knight;
    2 => c02_play_bishop, c03_play_bishop, c06_play_bishop, c10_play_bishop;
    3 => c02_play_rook, c03_play_rook, c06_play_rook, c10_play_rook;
    4 => c02_play_queen, c03_play_queen, c06_play_queen, c10_play_queen;
    5 => c02_play_king, c03_play_king, c06_play_king, c10_play_king;
    6 => c02_play_castle, c03_play_castle, c06_play_castle, c10_play_castle;
}

// =====================================================================================================
// C15 — checked play.  is_legal and play_unchecked are replaced by RECORDING contract stubs (their own
// contracts are O-C04.* and O-C02/C03/C10.*): try_play must consult the legality query with the move it
// was given, refuse exactly when the answer is no without touching the board, and otherwise leave the
// board exactly as play_unchecked produced it.
pub(crate) static mut ORACLE_LEGAL: bool = false;
pub(crate) static mut ASKED: u32 = 0;
pub(crate) static mut ASKED_MV: sp::Mv = sp::Mv { from: 0, to: 0, promo: 6 };
pub(crate) static mut ASKED_ON: u64 = 0; // fingerprint (colour bitboard) of the board the query was made on
pub(crate) static mut PLAYED: u32 = 0;
pub(crate) static mut PLAYED_MV: sp::Mv = sp::Mv { from: 0, to: 0, promo: 6 };
pub(crate) static mut AFTER: u64 = 0; // what the play_unchecked stub writes into the board

pub(crate) fn rec_is_legal(b: &Board, mv: Move) -> bool {
    unsafe {
        ASKED += 1;
        ASKED_MV = mv_of(mv);
        ASKED_ON = b.inner.colors(Color::White).0;
        ORACLE_LEGAL
    }
}
pub(crate) fn rec_play_unchecked(b: &mut Board, mv: Move) {
    unsafe {
        PLAYED += 1;
        PLAYED_MV = mv_of(mv);
        // a recognisable, otherwise arbitrary effect
        b.pinned = BitBoard(AFTER);
    }
}
fn same_board(a: &Board, b: &Board) -> bool {
    pos_of(a) == pos_of(b) && a.checkers == b.checkers && a.pinned == b.pinned
        && hash_of_z(&a.inner) == hash_of_z(&b.inner) && *a == *b
}
fn checked_play_setup() -> (Board, Move) {
    // any accepted board (INV), so that a counterexample can be replayed against the real functions
    let p = any_inv_pos();
    let b = mk_board(&p);
    let m = any_move();
    unsafe { ORACLE_LEGAL = kani::any(); AFTER = kani::any(); ASKED = 0; PLAYED = 0; }
    (b, m)
}
/// concrete replay (test build: the recording stubs are not applied): the statement itself, with the real
/// is_legal and play_unchecked
fn checked_play_real(b0: &Board, m: Move) {
    let legal = b0.is_legal(m);
    let mut b = b0.clone();
    let r = b.try_play(m);
    assert!(r.is_ok() == legal, "try_play succeeds exactly on legal moves");
    if legal {
        let mut expect = b0.clone();
        expect.play_unchecked(m);
        assert!(same_board(&b, &expect), "try_play leaves the board as play_unchecked produces it");
    } else {
        assert!(same_board(&b, b0), "a rejected move leaves the board unchanged");
    }
}

board_proof! {
    #[kani::stub(crate::board::Board::is_legal, rec_is_legal)]
    #[kani::stub(crate::board::Board::play_unchecked, rec_play_unchecked)]
    fn c15_try_play() {
        let (b0, m) = checked_play_setup();
        if cfg!(test) { checked_play_real(&b0, m); return; }
        let mut b = b0.clone();
        let r = b.try_play(m);
        unsafe {
            // the legality query was consulted exactly once, with this move, on the untouched board
            assert!(ASKED == 1 && ASKED_MV == mv_of(m) && ASKED_ON == b0.inner.colors(Color::White).0);
            if ORACLE_LEGAL {
                assert!(r.is_ok());
                assert!(PLAYED == 1 && PLAYED_MV == mv_of(m));
                // identical to what unchecked play produced from the original board
                let mut expect = b0.clone();
                expect.pinned = BitBoard(AFTER);
                assert!(same_board(&b, &expect));
            } else {
                assert!(r.is_err());
                assert!(PLAYED == 0);
                assert!(same_board(&b, &b0));
            }
        }
    }
}

board_proof! {
    #[kani::stub(crate::board::Board::is_legal, rec_is_legal)]
    #[kani::stub(crate::board::Board::play_unchecked, rec_play_unchecked)]
    fn c15_play_legal_no_panic() {
        let (b0, m) = checked_play_setup();
        if cfg!(test) { if b0.is_legal(m) { let mut b = b0.clone(); b.play(m); } return; }
        unsafe { ORACLE_LEGAL = true; }
        let mut b = b0.clone();
        b.play(m);
        unsafe {
            assert!(PLAYED == 1 && PLAYED_MV == mv_of(m));
            let mut expect = b0.clone();
            expect.pinned = BitBoard(AFTER);
            assert!(same_board(&b, &expect));
        }
    }
}

board_proof! {
    #[kani::should_panic]
    #[kani::stub(crate::board::Board::is_legal, rec_is_legal)]
    #[kani::stub(crate::board::Board::play_unchecked, rec_play_unchecked)]
    fn c15_play_illegal_panics() {
    let (b0, m) = checked_play_setup();
    unsafe { ORACLE_LEGAL = false; }
    let mut b = b0.clone();
    b.play(m);
    // not reached: if play returned without panicking the harness would end here WITHOUT a panic and
    // Kani reports the should_panic harness as failed
    }
}

// =====================================================================================================
// C13 — same_position.  is_legal is replaced by its contract (O-C04.*: == legality by the rules), the
// EP-less hash by its contract (C10: a function of the position without the EP file).
pub(crate) static mut HA: u64 = 0;
pub(crate) static mut HB: u64 = 0;
pub(crate) static mut PA_WHITE: u64 = 0;
pub(crate) static mut IS_A_TAG: u16 = 0;
pub(crate) fn ct_is_legal(b: &Board, mv: Move) -> bool {
    sp::spec_legal(&pos_of(b), mv_of(mv))
}
pub(crate) fn ct_hash_without_ep(b: &Board) -> u64 {
    // boards are told apart by the full-move number, which the harness makes distinct
    unsafe { if b.fullmove_number == IS_A_TAG { HA } else { HB } }
}
board_proof! {
    #[kani::unwind(9)]
    #[kani::stub(crate::board::Board::is_legal, ct_is_legal)]
    #[kani::stub(crate::board::Board::hash_without_ep, ct_hash_without_ep)]
    fn c13_same_position() {
        let pa = any_inv_pos();
        let pb = any_inv_pos();
        kani::assume(pa.fullmove != pb.fullmove);
        let (a, b) = (mk_board(&pa), mk_board(&pb));
        unsafe {
            HA = kani::any();
            HB = kani::any();
            IS_A_TAG = pa.fullmove;
            // C10: the EP-less hash is a function of placement, side and rights
            let same_noep = sp::same_placement(&pa, &pb) && pa.stm == pb.stm && sp::same_rights(&pa, &pb);
            kani::assume(!same_noep || HA == HB);
        }
        let r = a.same_position(&b);
        assert!(r == sp::spec_same_position(&pa, &pb));
        kani::cover!(r && pa.ep != pb.ep);
        kani::cover!(!r && sp::same_placement(&pa, &pb) && pa.stm == pb.stm && sp::same_rights(&pa, &pb));
    }
}

// O-C15.try_play.end-to-end (thorough): no stubs — the real is_legal and play_unchecked.
// (a) non-pawn origins (is_legal is loop-free there; the slider loop of play_unchecked is cut, its
//     invariant is not needed): Ok exactly for the moves legal by the rules, board unchanged on Err
// (b) illegal pawn moves (is_legal runs the real pawn loops, completely unwound): Err, board unchanged
fn same_board_fields(a: &Board, b: &Board) -> bool {
    let (p, q) = (pos_of(a), pos_of(b));
    p.pieces[0] == q.pieces[0] && p.pieces[1] == q.pieces[1] && p.pieces[2] == q.pieces[2]
        && p.pieces[3] == q.pieces[3] && p.pieces[4] == q.pieces[4] && p.pieces[5] == q.pieces[5]
        && p.colors[0] == q.colors[0] && p.colors[1] == q.colors[1] && p.stm == q.stm
        && p.castle[0][0] == q.castle[0][0] && p.castle[0][1] == q.castle[0][1]
        && p.castle[1][0] == q.castle[1][0] && p.castle[1][1] == q.castle[1][1]
        && p.ep == q.ep && p.halfmove == q.halfmove && p.fullmove == q.fullmove
        && a.checkers.0 == b.checkers.0 && a.pinned.0 == b.pinned.0
        && hash_of_z(&a.inner) == hash_of_z(&b.inner)
}
fn try_play_end_to_end(kind: u8) {
    let p = any_inv_pos();
    let b0 = mk_board(&p);
    let m = any_move();
    let own = p.colors[p.stm as usize];
    if kind < 6 {
        kani::assume(own & sp::bit(mv_of(m).from) != 0 && p.piece_at(mv_of(m).from) == kind);
    } else {
        kani::assume(own & sp::bit(mv_of(m).from) == 0);
    }
    cut_on();
    set_inv_off();
    let mut b = b0.clone();
    let r = b.try_play(m);
    assert!(r.is_ok() == sp::spec_legal(&p, mv_of(m)));
    if r.is_err() {
        assert!(same_board_fields(&b, &b0));
    }
}
board_proof! { fn c15_e2e_knight() { try_play_end_to_end(1); } }
board_proof! { fn c15_e2e_bishop() { try_play_end_to_end(2); } }
board_proof! { fn c15_e2e_rook() { try_play_end_to_end(3); } }
board_proof! { fn c15_e2e_queen() { try_play_end_to_end(4); } }
board_proof! { fn c15_e2e_king() { try_play_end_to_end(5); } }
board_proof! { fn c15_e2e_none() { try_play_end_to_end(6); } }
board_proof! {
    #[kani::unwind(9)]
    fn c15_try_play_end_to_end_pawn_illegal() {
        let p = any_inv_pos();
        let b0 = mk_board(&p);
        let m = any_move();
        kani::assume(p.piece_at(mv_of(m).from) == sp::P as u8 && !sp::spec_legal(&p, mv_of(m)));
        let mut b = b0.clone();
        let r = b.try_play(m);
        assert!(r.is_err());
        assert!(same_board_fields(&b, &b0));
    }
}
