// Board-level contracts: C02 (successor), C03 (checkers/pins), C10 (hash), C14 (null move),
// C15 (checked play), C12 (status), C13 (same_position).  Child module of `board`.
use super::*;
use crate::chess_spec as sp;
use crate::verif_common::*;
use super::zobrist::verif_zobrist::{mk_zobrist, pos_of_z, spec_hash, hash_of_z, features_of, features_xor, delta};

// ---- abstraction function and representation invariant ----------------------------------------
pub(crate) fn pos_of(b: &Board) -> sp::Pos {
    pos_of_z(&b.inner, b.halfmove_clock, b.fullmove_number)
}

/// the real Board that represents position `p` with the derived fields set to their definitions
pub(crate) fn mk_board_h(p: &sp::Pos) -> Board {
    Board {
        inner: mk_zobrist(p, spec_hash(p)),
        pinned: BitBoard(sp::spec_pinned(p, p.stm)),
        checkers: BitBoard(sp::spec_checkers(p, p.stm)),
        halfmove_clock: p.halfmove,
        fullmove_number: p.fullmove,
    }
}
/// same, but with an arbitrary stored hash (for obligations that do not depend on the hash)
pub(crate) fn mk_board(p: &sp::Pos) -> Board {
    Board {
        inner: mk_zobrist(p, kani::any()),
        pinned: BitBoard(sp::spec_pinned(p, p.stm)),
        checkers: BitBoard(sp::spec_checkers(p, p.stm)),
        halfmove_clock: p.halfmove,
        fullmove_number: p.fullmove,
    }
}

/// derived fields equal their definitions
pub(crate) fn derived_ok(b: &Board) -> bool {
    let p = pos_of(b);
    b.checkers.0 == sp::spec_checkers(&p, p.stm) && b.pinned.0 == sp::spec_pinned(&p, p.stm)
}

/// INV: an accepted board (every board the library hands out)
pub(crate) fn any_inv_pos() -> sp::Pos {
    let p = any_pos_raw();
    kani::assume(sp::spec_accept(&p));
    p
}

// ---- pins / checkers restricted to a subset of the candidate sliders (loop invariants) ---------
/// pieces pinned to the king of colour `c` by an enemy slider that lies in `sub`
pub(crate) fn pinned_by(p: &sp::Pos, c: u8, sub: u64) -> u64 {
    let occ = p.occ();
    let them = 1 - c;
    let rq = p.of(them, sp::R) | p.of(them, sp::Q);
    let bq = p.of(them, sp::B) | p.of(them, sp::Q);
    let kb = p.king_bb(c);
    let mut pinned = 0u64;
    let mut d = 0u8;
    while d < 8 {
        let first = sp::ray(kb, occ, d) & occ;
        let second = sp::ray(first, occ, d) & occ;
        let sliders = if d & 1 == 0 { rq } else { bq };
        if second & sliders & sub != 0 {
            pinned |= first;
        }
        d += 1;
    }
    pinned
}
/// enemy sliders in `sub` that give check to the king of colour `c`
pub(crate) fn slider_checkers_in(p: &sp::Pos, c: u8, sub: u64) -> u64 {
    let occ = p.occ();
    let them = 1 - c;
    let rq = p.of(them, sp::R) | p.of(them, sp::Q);
    let bq = p.of(them, sp::B) | p.of(them, sp::Q);
    let kb = p.king_bb(c);
    ((sp::rook_attacks(kb, occ) & rq) | (sp::bishop_attacks(kb, occ) & bq)) & sub
}

// ---- loop-cut hooks ---------------------------------------------------------------------------------
// null_move: `for square in their_attackers { .. board.pinned |= between .. }`
pub(crate) mod cut_null {
    use super::*;
    pub fn active() -> bool { cut_active() }
    fn inv(processed: BitBoard, board: &Board) -> bool {
        if inv_off() { return true; }
        let p = pos_of(board);
        board.pinned.0 == pinned_by(&p, p.stm, processed.0)
    }
    pub fn init(_set: BitBoard, board: &mut Board) {
        assert!(inv(BitBoard::EMPTY, board), "loop-inv-init null_move");
    }
    pub fn havoc(set: BitBoard, board: &mut Board) -> BitBoard {
        board.pinned = BitBoard(kani::any());
        let rem = BitBoard(kani::any::<u64>() & set.0);
        kani::assume(inv(set - rem, board));
        rem
    }
    pub fn step(set: BitBoard, rem: BitBoard, x: Square, board: &mut Board) {
        assert!(inv((set - rem) | x.bitboard(), board), "loop-inv-step null_move");
        kani::assume(false);
    }
}

// play_unchecked: `for square in our_attackers { .. self.checkers |= ..; self.pinned |= .. }`
pub(crate) static mut PLAY_C0: u64 = 0;
pub(crate) mod cut_play {
    use super::*;
    pub fn active() -> bool { cut_active() }
    fn inv(processed: BitBoard, board: &Board) -> bool {
        if inv_off() { return true; }
        let p = pos_of(board);
        // the side to move has not been toggled yet: the king in question is the opponent's
        let c = 1 - p.stm;
        let c0 = unsafe { PLAY_C0 };
        board.pinned.0 == pinned_by(&p, c, processed.0)
            && board.checkers.0 == c0 | slider_checkers_in(&p, c, processed.0)
    }
    pub fn init(_set: BitBoard, board: &mut Board) {
        unsafe { PLAY_C0 = board.checkers.0; }
        assert!(inv(BitBoard::EMPTY, board), "loop-inv-init play_unchecked");
    }
    pub fn havoc(set: BitBoard, board: &mut Board) -> BitBoard {
        board.pinned = BitBoard(kani::any());
        board.checkers = BitBoard(kani::any());
        let rem = BitBoard(kani::any::<u64>() & set.0);
        kani::assume(inv(set - rem, board));
        rem
    }
    pub fn step(set: BitBoard, rem: BitBoard, x: Square, board: &mut Board) {
        assert!(inv((set - rem) | x.bitboard(), board), "loop-inv-step play_unchecked");
        kani::assume(false);
    }
}

// =====================================================================================================
// C14 — null move
board_proof! {
    fn c14_null_move() {
        let p = any_inv_pos();
        let b = mk_board(&p);
        cut_on();
        let r = b.null_move();
        let in_check = sp::spec_checkers(&p, p.stm) != 0;
        kani::cover!(in_check);
        kani::cover!(!in_check && sp::spec_pinned(&sp::spec_null(&p), 1 - p.stm) != 0);
        match r {
            None => assert!(in_check),
            Some(n) => {
                assert!(!in_check);
                let q = sp::spec_null(&p);
                // every field of the position, whole-state comparison
                assert!(pos_of(&n) == q);
                // derived state equals that of a freshly constructed board of the position
                assert!(n.checkers.0 == sp::spec_checkers(&q, q.stm));
                assert!(n.checkers.0 == 0);
                assert!(n.pinned.0 == sp::spec_pinned(&q, q.stm));
                // and the result is again an accepted board
                assert!(sp::spec_accept(&q));
            }
        }
    }
}

// O-C10.null: the hash after a null move is the hash of the resulting position (feature accounting
// through the writer contracts)
hash_proof! {
    fn c10_null_hash() {
        let p = any_inv_pos();
        let b = mk_board(&p);
        cut_on();
        set_inv_off();
        if let Some(n) = b.null_move() {
            let q = pos_of(&n);
            assert!(features_xor(&features_of(&p), &delta()) == features_of(&q));
        }
    }
}

// =====================================================================================================
// play_unchecked family (C02 successor, C03 checkers/pins, C06 acceptance preserved, C10 hash)
//
// kind 0..5 = the moved piece (non-castling moves), 6 = castling (king "captures" own rook)
pub(crate) fn any_legal(kind: u8) -> (sp::Pos, Move) {
    let p = any_inv_pos();
    let m = any_move();
    let mv = mv_of(m);
    let castle = p.colors[p.stm as usize] & sp::bit(mv.to) != 0;
    if kind == 6 {
        kani::assume(castle);
    } else {
        kani::assume(!castle && p.piece_at(mv.from) == kind);
    }
    kani::assume(sp::spec_legal(&p, mv));
    (p, m)
}

fn play_post_position(kind: u8) {
    let (p, m) = any_legal(kind);
    let mut b = mk_board(&p);
    cut_on();
    set_inv_off();
    b.play_unchecked(m);
    // whole-state comparison with the successor prescribed by the rules
    assert!(pos_of(&b) == sp::spec_play(&p, mv_of(m)));
}

fn play_post_derived(kind: u8) {
    let (p, m) = any_legal(kind);
    let mut b = mk_board(&p);
    cut_on();
    b.play_unchecked(m);
    // q is the successor computed by the REAL code; its correctness is O-C02.play.*
    let q = pos_of(&b);
    assert!(b.checkers.0 == sp::spec_checkers(&q, q.stm));
    assert!(b.pinned.0 == sp::spec_pinned(&q, q.stm));
}

fn play_post_accept(kind: u8) {
    let (p, m) = any_legal(kind);
    // INV is inductive: the successor prescribed by the rules is again an accepted position
    let q = sp::spec_play(&p, mv_of(m));
    assert!(sp::spec_accept(&q));
}

fn play_post_hash(kind: u8) {
    let (p, m) = any_legal(kind);
    let mut b = mk_board(&p);
    cut_on();
    set_inv_off();
    b.play_unchecked(m);
    let q = pos_of(&b);
    assert!(features_xor(&features_of(&p), &delta()) == features_of(&q));
}

macro_rules! play_family {
    ($($k:expr => $pos:ident, $der:ident, $acc:ident, $hash:ident;)*) => {$(
        board_proof! { fn $pos() { play_post_position($k); } }
        board_proof! { fn $der() { play_post_derived($k); } }
        board_proof! { fn $acc() { play_post_accept($k); } }
        hash_proof! { fn $hash() { play_post_hash($k); } }
    )*};
}
play_family! {
    0 => c02_play_pawn, c03_play_pawn, c06_play_pawn, c10_play_pawn;
    1 => c02_play_knight, c03_play_knight, c06_play_knight, c10_play_knight;
    2 => c02_play_bishop, c03_play_bishop, c06_play_bishop, c10_play_bishop;
    3 => c02_play_rook, c03_play_rook, c06_play_rook, c10_play_rook;
    4 => c02_play_queen, c03_play_queen, c06_play_queen, c10_play_queen;
    5 => c02_play_king, c03_play_king, c06_play_king, c10_play_king;
    6 => c02_play_castle, c03_play_castle, c06_play_castle, c10_play_castle;
}
