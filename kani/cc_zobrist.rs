// C10 — hash writers; plus the abstraction function between the real ZobristBoard and the oracle's
// position record.  Child module of `board::zobrist` (sees the private key table and fields).
use super::*;
use crate::chess_spec as sp;
use crate::verif_common::*;

// ---- the key function KEY(feature), read from the real table with the canonical indexing -------
pub(crate) fn key_piece(c: u8, p: u8, s: u8) -> u64 {
    let z = &ZOBRIST;
    z.color[c as usize].pieces[p as usize][s as usize]
}
pub(crate) fn key_castle(c: u8, f: u8) -> u64 {
    let z = &ZOBRIST;
    z.color[c as usize].castle_rights[f as usize]
}
pub(crate) fn key_ep(f: u8) -> u64 {
    let z = &ZOBRIST;
    z.en_passant[f as usize]
}
pub(crate) fn key_black() -> u64 {
    let z = &ZOBRIST;
    z.black_to_move
}

/// hash by definition: XOR of the keys of the elementary features present in the position
pub(crate) fn spec_hash(p: &sp::Pos) -> u64 {
    let z = &ZOBRIST;
    let mut h = 0u64;
    let mut c = 0usize;
    while c < 2 {
        let mut pc = 0usize;
        while pc < 6 {
            let bb = p.colors[c] & p.pieces[pc];
            let mut s = 0usize;
            while s < 64 {
                if (bb >> s) & 1 == 1 {
                    h ^= z.color[c].pieces[pc][s];
                }
                s += 1;
            }
            pc += 1;
        }
        let mut w = 0usize;
        while w < 2 {
            if p.castle[c][w] < 8 {
                h ^= z.color[c].castle_rights[p.castle[c][w] as usize];
            }
            w += 1;
        }
        c += 1;
    }
    if p.ep < 8 {
        h ^= z.en_passant[p.ep as usize];
    }
    if p.stm == 1 {
        h ^= z.black_to_move;
    }
    h
}

pub(crate) fn mk_zobrist(p: &sp::Pos, hash: u64) -> ZobristBoard {
    ZobristBoard {
        pieces: [BitBoard(p.pieces[0]), BitBoard(p.pieces[1]), BitBoard(p.pieces[2]), BitBoard(p.pieces[3]),
                 BitBoard(p.pieces[4]), BitBoard(p.pieces[5])],
        colors: [BitBoard(p.colors[0]), BitBoard(p.colors[1])],
        side_to_move: color(p.stm),
        castle_rights: [
            CastleRights { short: opt_file(p.castle[0][0]), long: opt_file(p.castle[0][1]) },
            CastleRights { short: opt_file(p.castle[1][0]), long: opt_file(p.castle[1][1]) },
        ],
        en_passant: opt_file(p.ep),
        hash,
    }
}

pub(crate) fn pos_of_z(z: &ZobristBoard, halfmove: u8, fullmove: u16) -> sp::Pos {
    sp::Pos {
        pieces: [z.pieces[0].0, z.pieces[1].0, z.pieces[2].0, z.pieces[3].0, z.pieces[4].0, z.pieces[5].0],
        colors: [z.colors[0].0, z.colors[1].0],
        stm: z.side_to_move as u8,
        castle: [
            [file_code(z.castle_rights[0].short), file_code(z.castle_rights[0].long)],
            [file_code(z.castle_rights[1].short), file_code(z.castle_rights[1].long)],
        ],
        ep: file_code(z.en_passant),
        halfmove,
        fullmove,
    }
}
pub(crate) fn hash_of_z(z: &ZobristBoard) -> u64 { z.hash }

fn any_z() -> (ZobristBoard, sp::Pos, u64) {
    let p = any_pos_raw();
    let h: u64 = kani::any();
    (mk_zobrist(&p, h), p, h)
}

// O-C10.writer.xor_square: exact effect on every field
#[kani::proof]
fn c10_xor_square() {
    let (mut z, p, h) = any_z();
    let (pc, c, s) = (any_piece(), any_color(), any_square());
    z.xor_square(pc, c, s);
    let mut q = p;
    q.pieces[pc as usize] ^= 1u64 << (s as u8);
    q.colors[c as usize] ^= 1u64 << (s as u8);
    assert!(pos_of_z(&z, 0, 0) == sp::Pos { halfmove: 0, fullmove: 0, ..q });
    assert!(z.hash == h ^ key_piece(c as u8, pc as u8, s as u8));
}

// O-C10.writer.set_castle_right: replace semantics, exact hash delta, nothing else changes
#[kani::proof]
fn c10_set_castle_right() {
    let (mut z, p, h) = any_z();
    let c = any_color();
    let short: bool = kani::any();
    let f = any_idx(9);
    z.set_castle_right(c, short, opt_file(f));
    let w = if short { 0 } else { 1 };
    let prev = p.castle[c as usize][w];
    let mut q = p;
    q.castle[c as usize][w] = f;
    assert!(pos_of_z(&z, 0, 0) == sp::Pos { halfmove: 0, fullmove: 0, ..q });
    let mut e = h;
    if prev < 8 { e ^= key_castle(c as u8, prev); }
    if f < 8 { e ^= key_castle(c as u8, f); }
    assert!(z.hash == e);
}

// O-C10.writer.set_en_passant
#[kani::proof]
fn c10_set_en_passant() {
    let (mut z, p, h) = any_z();
    let f = any_idx(9);
    z.set_en_passant(opt_file(f));
    let mut q = p;
    q.ep = f;
    assert!(pos_of_z(&z, 0, 0) == sp::Pos { halfmove: 0, fullmove: 0, ..q });
    let mut e = h;
    if p.ep < 8 { e ^= key_ep(p.ep); }
    if f < 8 { e ^= key_ep(f); }
    assert!(z.hash == e);
}

// O-C10.writer.toggle
#[kani::proof]
fn c10_toggle() {
    let (mut z, p, h) = any_z();
    z.toggle_side_to_move();
    let mut q = p;
    q.stm = 1 - p.stm;
    assert!(pos_of_z(&z, 0, 0) == sp::Pos { halfmove: 0, fullmove: 0, ..q });
    assert!(z.hash == h ^ key_black());
}

// O-C10.observers: hash() is the stored hash; hash_without_ep() is the hash of the same position
// with the en-passant file cleared (given that the stored hash is the position's hash); the empty
// board hashes to the empty XOR
#[kani::proof]
fn c10_observers() {
    let p = any_pos_raw();
    let z = mk_zobrist(&p, spec_hash(&p));
    assert!(z.hash() == spec_hash(&p));
    assert!(z.hash_without_ep() == spec_hash(&sp::Pos { ep: sp::NOFILE, ..p }));
    let e = ZobristBoard::empty();
    assert!(e.hash == 0 && e.hash == spec_hash(&pos_of_z(&e, 0, 0)));
    assert!(pos_of_z(&e, 0, 0) == sp::Pos { pieces: [0; 6], colors: [0; 2], stm: 0, castle: [[8, 8], [8, 8]], ep: 8, halfmove: 0, fullmove: 0 });
}

// O-C10.board_is_equal: compares exactly placement, side and rights
#[kani::proof]
fn c10_board_is_equal() {
    let (a, pa, _) = any_z();
    let (b, pb, _) = any_z();
    let same = sp::same_placement(&pa, &pb) && pa.stm == pb.stm && sp::same_rights(&pa, &pb);
    assert!(a.board_is_equal(&b) == same);
}

// ---- hash accounting through the writer CONTRACTS (modular) -----------------------------------------
// Board-level hash obligations do not re-derive key arithmetic: the four writers are replaced by their
// verified contracts (O-C10.writer.*: identical effect on every position field, hash ^= KEY(feature)),
// with the hash represented symbolically as the SET of features whose keys have been XORed in
// (a formal sum over GF(2)); `D` accumulates the toggled features.  "hash' == spec_hash(successor)"
// is then: features(before) Δ D == features(after).
#[derive(Clone, Copy, PartialEq, Eq)]
pub(crate) struct Features {
    pub pieces: [[u64; 6]; 2],
    pub castle: [u16; 2],
    pub ep: u16,
    pub black: bool,
}
pub(crate) static mut D: Features = Features { pieces: [[0; 6]; 2], castle: [0; 2], ep: 0, black: false };

pub(crate) fn features_of(p: &sp::Pos) -> Features {
    let mut f = Features { pieces: [[0; 6]; 2], castle: [0; 2], ep: 0, black: p.stm == 1 };
    let mut c = 0;
    while c < 2 {
        let mut pc = 0;
        while pc < 6 {
            f.pieces[c][pc] = p.colors[c] & p.pieces[pc];
            pc += 1;
        }
        let mut w = 0;
        while w < 2 {
            if p.castle[c][w] < 8 { f.castle[c] ^= 1u16 << p.castle[c][w]; }
            w += 1;
        }
        c += 1;
    }
    if p.ep < 8 { f.ep = 1u16 << p.ep; }
    f
}
pub(crate) fn features_xor(a: &Features, b: &Features) -> Features {
    let mut f = *a;
    let mut c = 0;
    while c < 2 {
        let mut pc = 0;
        while pc < 6 {
            f.pieces[c][pc] ^= b.pieces[c][pc];
            pc += 1;
        }
        f.castle[c] ^= b.castle[c];
        c += 1;
    }
    f.ep ^= b.ep;
    f.black = a.black != b.black;
    f
}
pub(crate) fn delta() -> Features { unsafe { D } }

pub(crate) fn ct_xor_square(z: &mut ZobristBoard, piece: Piece, color: Color, square: Square) {
    let bb = square.bitboard();
    z.pieces[piece as usize] ^= bb;
    z.colors[color as usize] ^= bb;
    unsafe { D.pieces[color as usize][piece as usize] ^= bb.0; }
}
pub(crate) fn ct_set_castle_right(z: &mut ZobristBoard, color: Color, short: bool, file: Option<File>) {
    let prev = if short { z.castle_rights[color as usize].short } else { z.castle_rights[color as usize].long };
    if short { z.castle_rights[color as usize].short = file; } else { z.castle_rights[color as usize].long = file; }
    unsafe {
        if let Some(f) = prev { D.castle[color as usize] ^= 1u16 << (f as u8); }
        if let Some(f) = file { D.castle[color as usize] ^= 1u16 << (f as u8); }
    }
}
pub(crate) fn ct_set_en_passant(z: &mut ZobristBoard, new_en_passant: Option<File>) {
    let prev = z.en_passant;
    z.en_passant = new_en_passant;
    unsafe {
        if let Some(f) = prev { D.ep ^= 1u16 << (f as u8); }
        if let Some(f) = new_en_passant { D.ep ^= 1u16 << (f as u8); }
    }
}
pub(crate) fn ct_toggle_side_to_move(z: &mut ZobristBoard) {
    z.side_to_move = !z.side_to_move;
    unsafe { D.black = !D.black; }
}

// O-C10.contract-stubs: the contract stubs above have exactly the field effect of the real writers
// (so replacing the writers by them in board-level hash obligations loses nothing)
#[kani::proof]
fn c10_contract_stubs_faithful() {
    let (z0, _p, _h) = any_z();
    let (mut a, mut b) = (z0, z0);
    let which: u8 = kani::any();
    match which {
        0 => { let (pc, c, s) = (any_piece(), any_color(), any_square()); a.xor_square(pc, c, s); ct_xor_square(&mut b, pc, c, s); }
        1 => { let (c, sh, f) = (any_color(), kani::any(), opt_file(any_idx(9))); a.set_castle_right(c, sh, f); ct_set_castle_right(&mut b, c, sh, f); }
        2 => { let f = opt_file(any_idx(9)); a.set_en_passant(f); ct_set_en_passant(&mut b, f); }
        _ => { a.toggle_side_to_move(); ct_toggle_side_to_move(&mut b); }
    }
    assert!(pos_of_z(&a, 0, 0) == pos_of_z(&b, 0, 0));
}

// ---- hash deltas with the REAL key arithmetic -----------------------------------------------------------
// Board-level hash obligations: the mutators change the placement on at most five squares; with
// hash == spec_hash(before) as precondition, hash' == spec_hash(after) is (by linearity of XOR, terms of
// unchanged squares cancel) equivalent to
//     hash' ^ hash == XOR over the touched squares of (KEY(before at s) ^ KEY(after at s))
//                     ^ KEY(rights/EP/side of before) ^ KEY(rights/EP/side of after)
// provided nothing outside the touched squares changed.  Both sides are short XOR sums of real table keys.
pub(crate) fn key_at(p: &sp::Pos, s: u8) -> u64 {
    let b = sp::bit(s);
    if p.occ() & b == 0 {
        0
    } else {
        let c = if p.colors[1] & b != 0 { 1 } else { 0 };
        let pc = p.piece_at(s);
        if pc < 6 { key_piece(c, pc, s) } else { 0 }
    }
}
pub(crate) fn rest_hash(p: &sp::Pos) -> u64 {
    let mut h = 0u64;
    let mut c = 0u8;
    while c < 2 {
        let mut w = 0usize;
        while w < 2 {
            if p.castle[c as usize][w] < 8 { h ^= key_castle(c, p.castle[c as usize][w]); }
            w += 1;
        }
        c += 1;
    }
    if p.ep < 8 { h ^= key_ep(p.ep); }
    if p.stm == 1 { h ^= key_black(); }
    h
}
fn squares_mask(sq: &[u8; 5]) -> u64 {
    sp::bit(sq[0]) | sp::bit(sq[1]) | sp::bit(sq[2]) | sp::bit(sq[3]) | sp::bit(sq[4])
}
/// placement of p and q identical outside the listed squares
pub(crate) fn same_outside(p: &sp::Pos, q: &sp::Pos, sq: &[u8; 5]) -> bool {
    let m = !squares_mask(sq);
    let mut i = 0;
    let mut ok = (p.colors[0] ^ q.colors[0]) & m == 0 && (p.colors[1] ^ q.colors[1]) & m == 0;
    while i < 6 {
        ok = ok && (p.pieces[i] ^ q.pieces[i]) & m == 0;
        i += 1;
    }
    ok
}
pub(crate) fn delta_hash(p: &sp::Pos, q: &sp::Pos, sq: &[u8; 5]) -> u64 {
    let mut h = rest_hash(p) ^ rest_hash(q);
    let mut i = 0;
    while i < 5 {
        let mut dup = false;
        let mut j = 0;
        while j < i {
            if sq[j] == sq[i] { dup = true; }
            j += 1;
        }
        if !dup { h ^= key_at(p, sq[i]) ^ key_at(q, sq[i]); }
        i += 1;
    }
    h
}
/// hash by definition, square-major order (same value as spec_hash: XOR is commutative)
pub(crate) fn spec_hash_sq(p: &sp::Pos) -> u64 {
    let mut h = 0u64;
    let mut s = 0u8;
    while s < 64 {
        h ^= key_at(p, s);
        s += 1;
    }
    h ^ rest_hash(p)
}
