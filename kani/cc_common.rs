// shared helpers of the cozy-chess harness modules (crate-root child module `verif_common`)
use crate::*;
use crate::chess_spec as sp;

pub(crate) fn any_idx(n: u8) -> u8 {
    let s: u8 = kani::any();
    kani::assume(s < n);
    s
}
pub(crate) fn sq(i: u8) -> Square { Square::index(i as usize) }
pub(crate) fn any_square() -> Square { sq(any_idx(64)) }
pub(crate) fn any_file() -> File { File::index(any_idx(8) as usize) }
pub(crate) fn any_rank() -> Rank { Rank::index(any_idx(8) as usize) }
pub(crate) fn any_color() -> Color { Color::index(any_idx(2) as usize) }
pub(crate) fn any_piece() -> Piece { Piece::index(any_idx(6) as usize) }
pub(crate) fn piece(i: u8) -> Piece { Piece::index(i as usize) }
pub(crate) fn color(i: u8) -> Color { Color::index(i as usize) }
pub(crate) fn opt_file(f: u8) -> Option<File> { if f < 8 { Some(File::index(f as usize)) } else { None } }
pub(crate) fn file_code(f: Option<File>) -> u8 { match f { Some(f) => f as u8, None => sp::NOFILE } }
pub(crate) fn opt_piece(p: u8) -> Option<Piece> { if p < 6 { Some(piece(p)) } else { None } }
pub(crate) fn piece_code(p: Option<Piece>) -> u8 { match p { Some(p) => p as u8, None => sp::NOPIECE } }

/// any move value whatsoever: 64 x 64 x 7
pub(crate) fn any_move() -> Move {
    let from = any_square();
    let to = any_square();
    let p = any_idx(7);
    Move { from, to, promotion: opt_piece(p) }
}
pub(crate) fn mv_of(m: Move) -> sp::Mv {
    sp::Mv { from: m.from as u8, to: m.to as u8, promo: piece_code(m.promotion) }
}
pub(crate) fn move_of(m: sp::Mv) -> Move {
    Move { from: sq(m.from), to: sq(m.to), promotion: opt_piece(m.promo) }
}
