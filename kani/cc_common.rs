// shared helpers of the cozy-chess harness modules (crate-root child module `verif_common`)
use crate::*;
use crate::chess_spec as sp;

pub(crate) fn any_idx(n: u8) -> u8 {
    let s: u8 = kani::any();
    kani::assume(s < n);
    s
}
pub(crate) fn sq(i: u8) -> Square { Square::index(i as usize) }
pub(crate) fn any_square() -> Square { sq(any_idx(64)) }
pub(crate) fn any_file() -> File { File::index(any_idx(8) as usize) }
pub(crate) fn any_rank() -> Rank { Rank::index(any_idx(8) as usize) }
pub(crate) fn any_color() -> Color { Color::index(any_idx(2) as usize) }
pub(crate) fn any_piece() -> Piece { Piece::index(any_idx(6) as usize) }
pub(crate) fn piece(i: u8) -> Piece { Piece::index(i as usize) }
pub(crate) fn color(i: u8) -> Color { Color::index(i as usize) }
pub(crate) fn opt_file(f: u8) -> Option<File> { if f < 8 { Some(File::index(f as usize)) } else { None } }
pub(crate) fn file_code(f: Option<File>) -> u8 { match f { Some(f) => f as u8, None => sp::NOFILE } }
pub(crate) fn opt_piece(p: u8) -> Option<Piece> { if p < 6 { Some(piece(p)) } else { None } }
pub(crate) fn piece_code(p: Option<Piece>) -> u8 { match p { Some(p) => p as u8, None => sp::NOPIECE } }

/// any move value whatsoever: 64 x 64 x 7
pub(crate) fn any_move() -> Move {
    let from = any_square();
    let to = any_square();
    let p = any_idx(7);
    Move { from, to, promotion: opt_piece(p) }
}
pub(crate) fn mv_of(m: Move) -> sp::Mv {
    sp::Mv { from: m.from as u8, to: m.to as u8, promo: piece_code(m.promotion) }
}
pub(crate) fn move_of(m: sp::Mv) -> Move {
    Move { from: sq(m.from), to: sq(m.to), promotion: opt_piece(m.promo) }
}

// ---- loop-cut switch (E2) ----------------------------------------------------------------------
// harnesses that rely on loop-invariant VCs set CUT; during a concrete replay against the real loops
// (VERIF_NOCUT=1, test build) the original loops run instead.
pub(crate) static mut CUT: bool = false;
#[cfg(test)]
pub(crate) fn nocut() -> bool { std::env::var("VERIF_NOCUT").is_ok() }
#[cfg(not(test))]
pub(crate) fn nocut() -> bool { false }
/// weak-frame fallback of the loop-cut rewriter: a function local assigned by a cut loop body that the loop
/// spec does not declare is set to an arbitrary value of its type
pub(crate) fn havoc_local<T: kani::Arbitrary>(t: &mut T) { *t = kani::any(); }
pub(crate) fn cut_on() { unsafe { CUT = true; } }
pub(crate) fn cut_active() -> bool { let c = unsafe { CUT }; c && !nocut() }

/// a fully symbolic position record with in-range scalar fields (no structural assumption)
pub(crate) fn any_pos_raw() -> sp::Pos {
    let p = sp::Pos {
        pieces: [kani::any(), kani::any(), kani::any(), kani::any(), kani::any(), kani::any()],
        colors: [kani::any(), kani::any()],
        stm: kani::any(),
        castle: [[kani::any(), kani::any()], [kani::any(), kani::any()]],
        ep: kani::any(),
        halfmove: kani::any(),
        fullmove: kani::any(),
    };
    kani::assume(p.stm < 2 && p.ep <= 8);
    kani::assume(p.castle[0][0] <= 8 && p.castle[0][1] <= 8 && p.castle[1][0] <= 8 && p.castle[1][1] <= 8);
    p
}

/// wraps a harness: #[kani::proof] + the contract stubs of every lookup (justified by O-C05.*)
macro_rules! board_proof {
    ($(#[$m:meta])* fn $name:ident() $body:block) => {
        #[kani::proof]
        #[kani::stub(crate::moves::get_rook_moves, crate::moves::verif_moves::st_rook_moves)]
        #[kani::stub(crate::moves::get_bishop_moves, crate::moves::verif_moves::st_bishop_moves)]
        #[kani::stub(crate::moves::get_rook_rays, crate::moves::verif_moves::st_rook_rays)]
        #[kani::stub(crate::moves::get_bishop_rays, crate::moves::verif_moves::st_bishop_rays)]
        #[kani::stub(crate::moves::get_between_rays, crate::moves::verif_moves::st_between)]
        #[kani::stub(crate::moves::get_line_rays, crate::moves::verif_moves::st_line)]
        #[kani::stub(crate::moves::get_knight_moves, crate::moves::verif_moves::st_knight)]
        #[kani::stub(crate::moves::get_king_moves, crate::moves::verif_moves::st_king)]
        #[kani::stub(crate::moves::get_pawn_attacks, crate::moves::verif_moves::st_pawn_attacks)]
        #[kani::stub(crate::moves::get_pawn_quiets, crate::moves::verif_moves::st_pawn_quiets)]
        $(#[$m])*
        fn $name() $body
    };
}
pub(crate) use board_proof;

/// board_proof + the four hash writers replaced by their contracts (O-C10.writer.*, O-C10.contract-stubs)
macro_rules! hash_proof {
    ($(#[$m:meta])* fn $name:ident() $body:block) => {
        crate::verif_common::board_proof! {
            #[kani::stub(crate::board::zobrist::ZobristBoard::xor_square, crate::board::zobrist::verif_zobrist::ct_xor_square)]
            #[kani::stub(crate::board::zobrist::ZobristBoard::set_castle_right, crate::board::zobrist::verif_zobrist::ct_set_castle_right)]
            #[kani::stub(crate::board::zobrist::ZobristBoard::set_en_passant, crate::board::zobrist::verif_zobrist::ct_set_en_passant)]
            #[kani::stub(crate::board::zobrist::ZobristBoard::toggle_side_to_move, crate::board::zobrist::verif_zobrist::ct_toggle_side_to_move)]
            $(#[$m])*
            fn $name() $body
        }
    };
}
pub(crate) use hash_proof;

/// when set, loop invariants are not the subject of the harness: hooks havoc without constraint
pub(crate) static mut INV_OFF: bool = false;
pub(crate) fn inv_off() -> bool { unsafe { INV_OFF } }
pub(crate) fn set_inv_off() { unsafe { INV_OFF = true; } }
