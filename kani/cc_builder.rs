// C09 — the board builder (and the constructor halves of C03 / C06 / C10).  Child module of
// `board::builder`.
use super::*;
use crate::chess_spec as sp;
use crate::verif_common::*;
use crate::board::verif_board::{pos_of, derived_ok, any_inv_pos, mk_board};
use crate::board::zobrist::verif_zobrist::{features_of, features_xor, delta};

/// a fully symbolic builder state: 64 optional pieces, side, four optional right files, optional EP
/// square, two clocks
pub(crate) fn any_builder() -> BoardBuilder {
    let mut b = BoardBuilder::empty();
    let codes: [u8; 64] = kani::any();
    let mut i = 0;
    while i < 64 {
        let c = codes[i];
        kani::assume(c <= 12);
        b.board[i] = if c == 0 { None } else { Some((piece((c - 1) >> 1), color((c - 1) & 1))) };
        i += 1;
    }
    b.side_to_move = any_color();
    b.castle_rights = [
        CastleRights { short: opt_file(any_idx(9)), long: opt_file(any_idx(9)) },
        CastleRights { short: opt_file(any_idx(9)), long: opt_file(any_idx(9)) },
    ];
    let e = any_idx(65);
    b.en_passant = if e < 64 { Some(sq(e)) } else { None };
    b.halfmove_clock = kani::any();
    b.fullmove_number = kani::any();
    b
}

/// the position a builder state denotes (EP reduced to its file; the rank is an extra constraint)
pub(crate) fn pos_of_builder(b: &BoardBuilder) -> sp::Pos {
    let mut p = sp::Pos { pieces: [0; 6], colors: [0; 2], stm: b.side_to_move as u8,
        castle: [[file_code(b.castle_rights[0].short), file_code(b.castle_rights[0].long)],
                 [file_code(b.castle_rights[1].short), file_code(b.castle_rights[1].long)]],
        ep: match b.en_passant { Some(s) => s as u8 & 7, None => sp::NOFILE },
        halfmove: b.halfmove_clock, fullmove: b.fullmove_number };
    let mut i = 0;
    while i < 64 {
        if let Some((pc, c)) = b.board[i] {
            p.pieces[pc as usize] |= 1u64 << i;
            p.colors[c as usize] |= 1u64 << i;
        }
        i += 1;
    }
    p
}
/// the EP square, if given, lies on the rank behind a pawn of the side that just moved
pub(crate) fn ep_rank_ok(b: &BoardBuilder) -> bool {
    match b.en_passant {
        None => true,
        Some(s) => (s as u8 >> 3) == sp::rel_rank(2, 1 - b.side_to_move as u8),
    }
}

// the five aspects of a builder state, each stated on the state alone
fn aspect_board(p: &sp::Pos) -> bool {
    sp::placement_consistent(p) && sp::material_ok(p) && sp::kings_apart(p) && !sp::in_check(p, 1 - p.stm)
        && sp::spec_checkers(p, p.stm).count_ones() <= 2
}
fn aspect_rights(p: &sp::Pos) -> bool { sp::rights_ok(p) }
fn aspect_ep(b: &BoardBuilder, p: &sp::Pos) -> bool { ep_rank_ok(b) && sp::ep_ok(p) && sp::ep_checkers_ok(p) }
fn aspect_half(p: &sp::Pos) -> bool { p.halfmove <= 100 }
fn aspect_full(p: &sp::Pos) -> bool { p.fullmove > 0 }

fn err_code(e: BoardBuilderError) -> u8 {
    match e {
        BoardBuilderError::InvalidBoard => 0,
        BoardBuilderError::InvalidCastlingRights => 1,
        BoardBuilderError::InvalidEnPassant => 2,
        BoardBuilderError::InvalidHalfMoveClock => 3,
        BoardBuilderError::InvalidFullmoveNumber => 4,
    }
}

// O-C09.build: build() succeeds exactly on the states that denote an accepted position; the board
// returned represents that position with derived fields equal to their definitions and the hash
// accounted for; when exactly one aspect is wrong the error names it
/// case split of the build contract (the cases together cover every builder state)
/// case 0..3: (side to move, EP square present) = (w, no), (w, yes), (b, no), (b, yes); 4 = no split
fn build_contract(case: u8) {
        let st = any_builder();
        if case < 4 {
            kani::assume(st.side_to_move as u8 == case >> 1);
            kani::assume(st.en_passant.is_some() == (case & 1 == 1));
        } else if case >= 8 {
            // finer split (quick tier): additionally by "some castling right is present"
            let c = case - 8;
            kani::assume(st.side_to_move as u8 == (c >> 1) & 1);
            kani::assume(st.en_passant.is_some() == (c & 1 == 1));
            let any_right = st.castle_rights[0].short.is_some() || st.castle_rights[0].long.is_some()
                || st.castle_rights[1].short.is_some() || st.castle_rights[1].long.is_some();
            kani::assume(any_right == (c >> 2 == 1));
        }
        let p = pos_of_builder(&st);
        cut_on();
        let r = st.build();
        let a = [aspect_board(&p), aspect_rights(&p), aspect_ep(&st, &p), aspect_half(&p), aspect_full(&p)];
        let all = a[0] && a[1] && a[2] && a[3] && a[4];
        match r {
            Ok(b) => {
                assert!(all);
                assert!(sp::spec_accept(&p));
                assert!(pos_of(&b) == p);
                assert!(derived_ok(&b));
            }
            Err(e) => {
                assert!(!all);
                let e = err_code(e) as usize;
                let wrong = (!a[0]) as u8 + (!a[1]) as u8 + (!a[2]) as u8 + (!a[3]) as u8 + (!a[4]) as u8;
                if wrong == 1 {
                    assert!(!a[e]);
                }
            }
        }
        kani::cover!(all);
}
hash_proof! { #[kani::unwind(66)] fn c09_build() { build_contract(4); } }
hash_proof! { #[kani::unwind(66)] fn c09_build_w_noep() { build_contract(0); } }
hash_proof! { #[kani::unwind(66)] fn c09_build_w_ep() { build_contract(1); } }
hash_proof! { #[kani::unwind(66)] fn c09_build_b_noep() { build_contract(2); } }
hash_proof! { #[kani::unwind(66)] fn c09_build_b_ep() { build_contract(3); } }
hash_proof! { #[kani::unwind(66)] fn c09_build_s0() { build_contract(8); } }
hash_proof! { #[kani::unwind(66)] fn c09_build_s1() { build_contract(9); } }
hash_proof! { #[kani::unwind(66)] fn c09_build_s2() { build_contract(10); } }
hash_proof! { #[kani::unwind(66)] fn c09_build_s3() { build_contract(11); } }
hash_proof! { #[kani::unwind(66)] fn c09_build_s4() { build_contract(12); } }
hash_proof! { #[kani::unwind(66)] fn c09_build_s5() { build_contract(13); } }
hash_proof! { #[kani::unwind(66)] fn c09_build_s6() { build_contract(14); } }
hash_proof! { #[kani::unwind(66)] fn c09_build_s7() { build_contract(15); } }

// from_board: `for square in pieces { *this.square_mut(square) = Some((piece, color)); }` nested in the
// colour / piece loops.  The invariant is stated for one universally quantified square T.
pub(crate) static mut T: u8 = 0;
pub(crate) static mut FB_POS: sp::Pos = sp::Pos { pieces: [0; 6], colors: [0; 2], stm: 0, castle: [[8; 2]; 2], ep: 8, halfmove: 0, fullmove: 1 };
pub(crate) mod cut_from_board {
    use super::*;
    pub fn active() -> bool { cut_active() }
    fn inv(processed: BitBoard, this: &BoardBuilder, color: Color, piece: Piece) -> bool {
        if inv_off() { return true; }
        unsafe {
            let t = T;
            let p = &FB_POS;
            let tb = sp::bit(t);
            // has square T been written already?  (colour, piece) pairs are visited in lexicographic order
            let pc_t = p.piece_at(t);
            let col_t: u8 = if p.colors[1] & tb != 0 { 1 } else { 0 };
            let occupied = p.occ() & tb != 0;
            let earlier = occupied && (col_t < color as u8 || (col_t == color as u8 && pc_t < piece as u8));
            let now = processed.0 & tb != 0;
            let expect = if earlier || now { Some((crate::verif_common::piece(pc_t), crate::verif_common::color(col_t))) } else { None };
            this.board[t as usize] == expect
        }
    }
    pub fn init(_set: BitBoard, color: Color, piece: Piece, this: &mut BoardBuilder) {
        assert!(inv(BitBoard::EMPTY, this, color, piece), "loop-inv-init from_board");
    }
    pub fn havoc(set: BitBoard, color: Color, piece: Piece, this: &mut BoardBuilder) -> BitBoard {
        // frame: the body writes only `this.board[..]`
        let t = unsafe { T } as usize;
        let code = any_idx(13);
        this.board[t] = if code == 0 { None } else { Some((crate::verif_common::piece((code - 1) >> 1), crate::verif_common::color((code - 1) & 1))) };
        let rem = BitBoard(kani::any::<u64>() & set.0);
        kani::assume(inv(set - rem, this, color, piece));
        rem
    }
    pub fn step(set: BitBoard, rem: BitBoard, x: Square, color: Color, piece: Piece, this: &mut BoardBuilder) {
        assert!(inv((set - rem) | x.bitboard(), this, color, piece), "loop-inv-step from_board");
        kani::assume(false);
    }
}

// O-C09.from_board: converting an accepted board to a builder gives the state that denotes its position
board_proof! {
    #[kani::unwind(9)]
    fn c09_from_board() {
        let p = any_inv_pos();
        let b = mk_board(&p);
        let t = any_idx(64);
        unsafe { T = t; FB_POS = p; }
        cut_on();
        let st = BoardBuilder::from_board(&b);
        // square T (arbitrary) holds exactly what the position has there
        let pc = p.piece_at(t);
        let expect = if p.occ() & sp::bit(t) != 0 {
            Some((piece(pc), color(if p.colors[1] & sp::bit(t) != 0 { 1 } else { 0 })))
        } else { None };
        assert!(st.board[t as usize] == expect);
        assert!(st.side_to_move as u8 == p.stm);
        assert!(file_code(st.castle_rights[0].short) == p.castle[0][0] && file_code(st.castle_rights[0].long) == p.castle[0][1]);
        assert!(file_code(st.castle_rights[1].short) == p.castle[1][0] && file_code(st.castle_rights[1].long) == p.castle[1][1]);
        assert!(st.halfmove_clock == p.halfmove && st.fullmove_number == p.fullmove);
        match st.en_passant {
            None => assert!(p.ep == sp::NOFILE),
            Some(s) => assert!(p.ep < 8 && s as u8 == p.ep_square()),
        }
        assert!(ep_rank_ok(&st));
    }
}

// O-C10.ctor.build: the board returned by build() carries the hash of its position: built from the empty
// board (no features, hash 0) through the four writers only; feature accounting through their contracts
hash_proof! {
    #[kani::unwind(100)]
    fn c10g_build_hash() {
        let st = any_builder();
        let p = pos_of_builder(&st);
        cut_on();
        set_inv_off();
        if let Ok(b) = st.build() {
            let empty = sp::Pos { pieces: [0; 6], colors: [0; 2], stm: 0, castle: [[8; 2]; 2], ep: 8, halfmove: 0, fullmove: 0 };
            assert!(pos_of(&b) == p);
            assert!(features_xor(&features_of(&empty), &delta()) == features_of(&p));
        }
    }
}
