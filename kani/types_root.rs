// C19 — coordinates and their text forms.  Child module of the crate root of cozy-chess-types.
// Coordinate harnesses are loop-free and full-domain.  String harnesses are bounded (bytes).
use crate::*;
use core::convert::TryFrom;
use core::str::FromStr;

pub(crate) fn any_idx(n: u8) -> u8 {
    let s: u8 = kani::any();
    kani::assume(s < n);
    s
}
pub(crate) fn any_square() -> Square {
    Square::index(any_idx(64) as usize)
}
pub(crate) fn any_file() -> File {
    File::index(any_idx(8) as usize)
}
pub(crate) fn any_rank() -> Rank {
    Rank::index(any_idx(8) as usize)
}
pub(crate) fn any_color() -> Color {
    Color::index(any_idx(2) as usize)
}
pub(crate) fn any_piece() -> Piece {
    Piece::index(any_idx(6) as usize)
}

// O-C19.coord.square: construction / decomposition / flips / colour-relative views
#[kani::proof]
fn c19_square_coords() {
    let f = any_idx(8);
    let r = any_idx(8);
    let (file, rank) = (File::index(f as usize), Rank::index(r as usize));
    assert!(file as u8 == f && rank as u8 == r);
    let sq = Square::new(file, rank);
    assert!(sq as u8 == r * 8 + f);
    assert!(sq.file() == file && sq.rank() == rank);
    assert!(Square::index((r * 8 + f) as usize) == sq);
    assert!(Square::try_index((r * 8 + f) as usize) == Some(sq));
    assert!(Square::index_const((r * 8 + f) as usize) == sq);
    assert!(sq.flip_file() == Square::new(File::index((7 - f) as usize), rank));
    assert!(sq.flip_rank() == Square::new(file, Rank::index((7 - r) as usize)));
    assert!(sq.relative_to(Color::White) == sq);
    assert!(sq.relative_to(Color::Black) == sq.flip_rank());
    assert!(file.flip() as u8 == 7 - f && rank.flip() as u8 == 7 - r);
    assert!(rank.relative_to(Color::White) == rank && rank.relative_to(Color::Black) as u8 == 7 - r);
    // bitboards of a square / file / rank are exactly the squares with that coordinate
    let t = any_idx(64);
    let tb = 1u64 << t;
    assert!((sq.bitboard().0 & tb != 0) == (t == r * 8 + f));
    assert!((file.bitboard().0 & tb != 0) == (t & 7 == f));
    assert!((rank.bitboard().0 & tb != 0) == (t >> 3 == r));
    assert!((file.adjacent().0 & tb != 0) == ((t & 7) + 1 == f || (t & 7) == f + 1));
    assert!(BitBoard::from(sq) == sq.bitboard() && BitBoard::from(file) == file.bitboard()
        && BitBoard::from(rank) == rank.bitboard());
}

// O-C19.coord.index-total: try_index is total: None exactly outside the range (all usize)
#[kani::proof]
fn c19_try_index_total() {
    let i: usize = kani::any();
    assert!(Square::try_index(i).is_some() == (i < 64));
    assert!(File::try_index(i).is_some() == (i < 8));
    assert!(Rank::try_index(i).is_some() == (i < 8));
    assert!(Color::try_index(i).is_some() == (i < 2));
    assert!(Piece::try_index(i).is_some() == (i < 6));
    if let Some(s) = Square::try_index(i) { assert!(s as usize == i); }
    if let Some(s) = File::try_index(i) { assert!(s as usize == i); }
    if let Some(s) = Rank::try_index(i) { assert!(s as usize == i); }
    if let Some(s) = Color::try_index(i) { assert!(s as usize == i); }
    if let Some(s) = Piece::try_index(i) { assert!(s as usize == i); }
    assert!(!Color::White == Color::Black && !Color::Black == Color::White);
}

// O-C19.coord.try-offset: for every square and every (i8, i8) offset pair: plain coordinate
// arithmetic, None exactly when off the board, and no arithmetic overflow anywhere (Kani checks
// every +,-,<< for overflow => same answer with overflow checks on and off)
#[kani::proof]
fn c19_try_offset() {
    let sq = any_square();
    let df: i8 = kani::any();
    let dr: i8 = kani::any();
    let nf = (sq as u8 & 7) as i16 + df as i16;
    let nr = (sq as u8 >> 3) as i16 + dr as i16;
    let r = sq.try_offset(df, dr);
    if nf >= 0 && nf < 8 && nr >= 0 && nr < 8 {
        assert!(r == Some(Square::index((nr * 8 + nf) as usize)));
        // the panicking variant agrees when in range
        assert!(sq.offset(df, dr) as i16 == nr * 8 + nf);
    } else {
        assert!(r.is_none());
    }
}

// O-C19.coord.offset-panics: the panicking variant panics when the target is off the board
#[kani::proof]
#[kani::should_panic]
fn c19_offset_panics_off_board() {
    let sq = any_square();
    let df: i8 = kani::any();
    let dr: i8 = kani::any();
    let nf = (sq as u8 & 7) as i16 + df as i16;
    let nr = (sq as u8 >> 3) as i16 + dr as i16;
    kani::assume(!(nf >= 0 && nf < 8 && nr >= 0 && nr < 8));
    // restrict to offsets whose coordinate sums stay inside i8, so that the only possible panic is
    // the documented one (the overflow case is covered by c19_try_offset)
    kani::assume(nf >= -128 && nf <= 127 && nr >= -128 && nr <= 127);
    let _ = sq.offset(df, dr);
}

// reference text forms
pub(crate) fn file_char(f: u8) -> char { (b'a' + f) as char }
pub(crate) fn rank_char(r: u8) -> char { (b'1' + r) as char }
pub(crate) fn piece_char(p: u8) -> char {
    match p { 0 => 'p', 1 => 'n', 2 => 'b', 3 => 'r', 4 => 'q', _ => 'k' }
}
pub(crate) fn color_char(c: u8) -> char { if c == 0 { 'w' } else { 'b' } }

// O-C19.char: char conversions are exact inverses on the whole `char` domain
#[kani::proof]
fn c19_char_conversions() {
    let c: char = kani::any();
    match File::try_from(c) {
        Ok(v) => assert!(char::from(v) == c && c == file_char(v as u8)),
        Err(_) => assert!(!(c >= 'a' && c <= 'h')),
    }
    match Rank::try_from(c) {
        Ok(v) => assert!(char::from(v) == c && c == rank_char(v as u8)),
        Err(_) => assert!(!(c >= '1' && c <= '8')),
    }
    match Piece::try_from(c) {
        Ok(v) => assert!(char::from(v) == c && c == piece_char(v as u8)),
        Err(_) => assert!(c != 'p' && c != 'n' && c != 'b' && c != 'r' && c != 'q' && c != 'k'),
    }
    match Color::try_from(c) {
        Ok(v) => assert!(char::from(v) == c && c == color_char(v as u8)),
        Err(_) => assert!(c != 'w' && c != 'b'),
    }
    // value -> char -> value
    let f = any_file();
    assert!(File::try_from(char::from(f)).ok() == Some(f));
    let r = any_rank();
    assert!(Rank::try_from(char::from(r)).ok() == Some(r));
    let p = any_piece();
    assert!(Piece::try_from(char::from(p)).ok() == Some(p));
    let k = any_color();
    assert!(Color::try_from(char::from(k)).ok() == Some(k));
}

// ------------------------------------------------------------------------------------------------
// bounded strings

/// an arbitrary UTF-8 string of at most N bytes, backed by `buf`
pub(crate) fn any_str<const N: usize>(buf: &mut [u8; N]) -> &str {
    *buf = kani::any();
    let len: usize = kani::any();
    kani::assume(len <= N);
    let r = core::str::from_utf8(&buf[..len]);
    kani::assume(r.is_ok());
    r.unwrap()
}

/// reference reader for one-character texts
fn one_char(s: &str) -> Option<char> {
    let b = s.as_bytes();
    if b.len() == 1 && b[0] < 0x80 { Some(b[0] as char) } else { None }
}

// O-C19.parse.enums (bounded: strings of <= 4 bytes): File/Rank/Piece/Color accept exactly their
// one-letter texts
#[kani::proof]
#[kani::unwind(6)]
fn c19_parse_enums_b4() {
    let mut buf = [0u8; 4];
    let s = any_str(&mut buf);
    let c = one_char(s);
    match File::from_str(s) {
        Ok(v) => assert!(c == Some(file_char(v as u8))),
        Err(_) => assert!(!matches!(c, Some('a'..='h'))),
    }
    match Rank::from_str(s) {
        Ok(v) => assert!(c == Some(rank_char(v as u8))),
        Err(_) => assert!(!matches!(c, Some('1'..='8'))),
    }
    match Piece::from_str(s) {
        Ok(v) => assert!(c == Some(piece_char(v as u8))),
        Err(_) => assert!(!matches!(c, Some('p' | 'n' | 'b' | 'r' | 'q' | 'k'))),
    }
    match Color::from_str(s) {
        Ok(v) => assert!(c == Some(color_char(v as u8))),
        Err(_) => assert!(!matches!(c, Some('w' | 'b'))),
    }
}

/// reference reader for square texts: exactly two bytes, file letter then rank digit
fn ref_square(b: &[u8]) -> Option<u8> {
    if b.len() == 2 && b[0] >= b'a' && b[0] <= b'h' && b[1] >= b'1' && b[1] <= b'8' {
        Some((b[1] - b'1') * 8 + (b[0] - b'a'))
    } else {
        None
    }
}

// O-C19.parse.square (bounded: <= 6 bytes)
#[kani::proof]
#[kani::unwind(8)]
fn c19_parse_square_b6() {
    let mut buf = [0u8; 6];
    let s = any_str(&mut buf);
    let expect = ref_square(s.as_bytes());
    match Square::from_str(s) {
        Ok(v) => assert!(expect == Some(v as u8)),
        Err(_) => assert!(expect.is_none()),
    }
}

/// reference reader for move texts: 4 bytes (two squares) or 5 bytes (plus one of n b r q)
fn ref_move(b: &[u8]) -> Option<(u8, u8, u8)> {
    if b.len() != 4 && b.len() != 5 {
        return None;
    }
    let from = ref_square(&b[0..2])?;
    let to = ref_square(&b[2..4])?;
    let promo = if b.len() == 5 {
        match b[4] {
            b'n' => 1,
            b'b' => 2,
            b'r' => 3,
            b'q' => 4,
            _ => return None,
        }
    } else {
        6
    };
    Some((from, to, promo))
}

// O-C19.parse.move (bounded: <= 8 bytes): Move::from_str accepts exactly the texts formatting
// produces (for legal-shape moves) and decodes them faithfully; never panics
#[kani::proof]
#[kani::unwind(10)]
fn c19_parse_move_b8() {
    let mut buf = [0u8; 8];
    let s = any_str(&mut buf);
    let expect = ref_move(s.as_bytes());
    match Move::from_str(s) {
        Ok(m) => {
            let p = match m.promotion { None => 6, Some(p) => p as u8 };
            assert!(expect == Some((m.from as u8, m.to as u8, p)));
        }
        Err(_) => assert!(expect.is_none()),
    }
}

// ------------------------------------------------------------------------------------------------
// Display through the real core::fmt machinery into a fixed buffer

pub(crate) struct Buf<const N: usize> {
    pub b: [u8; N],
    pub n: usize,
}
impl<const N: usize> Buf<N> {
    pub fn new() -> Self { Buf { b: [0; N], n: 0 } }
}
impl<const N: usize> core::fmt::Write for Buf<N> {
    fn write_str(&mut self, s: &str) -> core::fmt::Result {
        let bytes = s.as_bytes();
        let mut i = 0;
        while i < bytes.len() {
            if self.n >= N { return Err(core::fmt::Error); }
            self.b[self.n] = bytes[i];
            self.n += 1;
            i += 1;
        }
        Ok(())
    }
}

// O-C19.display.square: formatting a square gives file letter + rank digit
#[kani::proof]
#[kani::unwind(6)]
fn c19_display_square() {
    use core::fmt::Write;
    let sq = any_square();
    let mut w = Buf::<4>::new();
    let r = write!(w, "{}", sq);
    assert!(r.is_ok());
    assert!(w.n == 2 && w.b[0] == b'a' + (sq as u8 & 7) && w.b[1] == b'1' + (sq as u8 >> 3));
}

// O-C19.display.enums: Display for File / Rank / Piece / Color is the one-letter text
#[kani::proof]
#[kani::unwind(6)]
fn c19_display_enums() {
    use core::fmt::Write;
    let (f, r, p, c) = (any_file(), any_rank(), any_piece(), any_color());
    let mut w = Buf::<8>::new();
    assert!(write!(w, "{}{}{}{}", f, r, p, c).is_ok());
    assert!(w.n == 4);
    assert!(w.b[0] as char == file_char(f as u8) && w.b[1] as char == rank_char(r as u8));
    assert!(w.b[2] as char == piece_char(p as u8) && w.b[3] as char == color_char(c as u8));
}

// O-C19.display.move + round trip: formatting a move gives <from><to>[promotion letter]; for
// legal-shape moves (no promotion or n/b/r/q) parsing the produced text gives the move back
#[kani::proof]
#[kani::unwind(10)]
fn c19_display_move_roundtrip() {
    use core::fmt::Write;
    let from = any_square();
    let to = any_square();
    let has_promo: bool = kani::any();
    let pp = any_piece();
    let m = Move { from, to, promotion: if has_promo { Some(pp) } else { None } };
    let mut w = Buf::<8>::new();
    assert!(write!(w, "{}", m).is_ok());
    assert!(w.n == if has_promo { 5 } else { 4 });
    assert!(w.b[0] == b'a' + (from as u8 & 7) && w.b[1] == b'1' + (from as u8 >> 3));
    assert!(w.b[2] == b'a' + (to as u8 & 7) && w.b[3] == b'1' + (to as u8 >> 3));
    if has_promo { assert!(w.b[4] as char == piece_char(pp as u8)); }
    let legal_shape = !has_promo || !matches!(pp, Piece::King | Piece::Pawn);
    let s = core::str::from_utf8(&w.b[..w.n]).unwrap();
    let back = Move::from_str(s);
    if legal_shape {
        assert!(back.ok() == Some(m));
    } else {
        assert!(back.is_err());
    }
}
