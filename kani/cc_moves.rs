// C05 — attack and geometry lookups equal their geometric definition.  Child module of `moves`.
// Also defines the CONTRACT STUBS (st_*) by which board-level harnesses see the lookups: each stub is
// the right-hand side of the corresponding O-C05 obligation, so a caller verified against a stub is
// verified against the callee's contract, not its body.
use super::*;
use crate::chess_spec as sp;
use crate::verif_common::*;

// ---- contract stubs (justified by the obligations below) -------------------------------------
pub(crate) fn st_rook_moves(square: Square, blockers: BitBoard) -> BitBoard {
    BitBoard(sp::rook_attacks(sp::bit(square as u8), blockers.0))
}
pub(crate) fn st_bishop_moves(square: Square, blockers: BitBoard) -> BitBoard {
    BitBoard(sp::bishop_attacks(sp::bit(square as u8), blockers.0))
}
pub(crate) fn st_rook_rays(square: Square) -> BitBoard {
    BitBoard(sp::rook_attacks(sp::bit(square as u8), 0))
}
pub(crate) fn st_bishop_rays(square: Square) -> BitBoard {
    BitBoard(sp::bishop_attacks(sp::bit(square as u8), 0))
}
pub(crate) fn st_between(from: Square, to: Square) -> BitBoard {
    BitBoard(sp::between(from as u8, to as u8))
}
pub(crate) fn st_line(from: Square, to: Square) -> BitBoard {
    BitBoard(sp::line(from as u8, to as u8))
}
pub(crate) fn st_knight(square: Square) -> BitBoard {
    BitBoard(sp::knight_attacks(sp::bit(square as u8)))
}
pub(crate) fn st_king(square: Square) -> BitBoard {
    BitBoard(sp::king_attacks(sp::bit(square as u8)))
}
pub(crate) fn st_pawn_attacks(square: Square, color: Color) -> BitBoard {
    BitBoard(sp::pawn_attacks(sp::bit(square as u8), color as u8))
}
pub(crate) fn st_pawn_quiets(square: Square, color: Color, blockers: BitBoard) -> BitBoard {
    BitBoard(sp::pawn_quiets(square as u8, color as u8, blockers.0))
}

// ---- leapers, pawns, rays, between, line: full domain, one query each -----------------------------
#[kani::proof]
fn c05_knight() {
    let s = any_square();
    assert!(get_knight_moves(s) == st_knight(s));
}
#[kani::proof]
fn c05_king() {
    let s = any_square();
    assert!(get_king_moves(s) == st_king(s));
}
#[kani::proof]
fn c05_pawn_attacks() {
    let s = any_square();
    let c = any_color();
    assert!(get_pawn_attacks(s, c) == st_pawn_attacks(s, c));
}
#[kani::proof]
fn c05_pawn_quiets() {
    let s = any_square();
    let c = any_color();
    let occ = BitBoard(kani::any());
    assert!(get_pawn_quiets(s, c, occ) == st_pawn_quiets(s, c, occ));
}
#[kani::proof]
fn c05_rays() {
    let s = any_square();
    assert!(get_rook_rays(s) == st_rook_rays(s));
    assert!(get_bishop_rays(s) == st_bishop_rays(s));
}
#[kani::proof]
fn c05_between() {
    let a = any_square();
    let b = any_square();
    assert!(get_between_rays(a, b) == st_between(a, b));
}
#[kani::proof]
fn c05_line() {
    let a = any_square();
    let b = any_square();
    assert!(get_line_rays(a, b) == st_line(a, b));
}

// ---- the oracle's own geometry: `between`/`line` agree with a direct coordinate definition ------
// (guards the oracle: squares strictly between = on the segment; line = collinear with both)
#[kani::proof]
fn c05_spec_between_line_coordinates() {
    let a = any_idx(64);
    let b = any_idx(64);
    let t = any_idx(64);
    let (af, ar, bf, br, tf, tr) = ((a & 7) as i16, (a >> 3) as i16, (b & 7) as i16, (b >> 3) as i16,
                                    (t & 7) as i16, (t >> 3) as i16);
    let (dx, dy) = (bf - af, br - ar);
    let aligned = a != b && (dx == 0 || dy == 0 || dx == dy || dx == -dy);
    // t is collinear with a and b
    let collinear = (tf - af) * dy == (tr - ar) * dx;
    // t strictly inside the segment a..b
    let inside = collinear && t != a && t != b
        && (tf - af) * (tf - bf) <= 0 && (tr - ar) * (tr - br) <= 0;
    assert!((sp::between(a, b) >> t) & 1 == (aligned && inside) as u64);
    assert!((sp::line(a, b) >> t) & 1 == (aligned && collinear) as u64);
}

// ---- sliders -------------------------------------------------------------------------------------
// (b) the geometric definition ignores the irrelevant occupancy bits
#[kani::proof]
fn c05_spec_irrelevant_rook() {
    let s = any_square();
    let occ: u64 = kani::any();
    let mask = get_rook_relevant_blockers(s).0;
    assert!(st_rook_moves(s, BitBoard(occ)) == st_rook_moves(s, BitBoard(occ & mask)));
}
#[kani::proof]
#[kani::unwind(66)]
fn c05_spec_irrelevant_bishop() {
    let s = any_square();
    let occ: u64 = kani::any();
    let mask = get_bishop_relevant_blockers(s).0;
    assert!(st_bishop_moves(s, BitBoard(occ)) == st_bishop_moves(s, BitBoard(occ & mask)));
}
// (a) the table index ignores the irrelevant occupancy bits (real index functions)
#[kani::proof]
fn c05_index_irrelevant_rook() {
    let s = any_square();
    let occ: u64 = kani::any();
    let mask = get_rook_relevant_blockers(s).0;
    assert!(get_rook_moves_index(s, BitBoard(occ)) == get_rook_moves_index(s, BitBoard(occ & mask)));
}
#[kani::proof]
#[kani::unwind(66)]
fn c05_index_irrelevant_bishop() {
    let s = any_square();
    let occ: u64 = kani::any();
    let mask = get_bishop_relevant_blockers(s).0;
    assert!(get_bishop_moves_index(s, BitBoard(occ)) == get_bishop_moves_index(s, BitBoard(occ & mask)));
}

// the const variants (= the slow walker) equal the geometric definition: one instance per square,
// symbolic occupancy, walker loops unwound completely (4 directions x at most 7 steps)
macro_rules! slow_walker {
    ($($name:ident : $sq:expr),*) => {$(
        #[kani::proof]
        #[kani::unwind(9)]
        fn $name() {
            let s = Square::index($sq);
            let occ = BitBoard(kani::any());
            assert!(get_rook_moves_const(s, occ) == st_rook_moves(s, occ));
            assert!(get_bishop_moves_const(s, occ) == st_bishop_moves(s, occ));
        }
    )*};
}
slow_walker! {
    c05_slow_00: 0, c05_slow_01: 1, c05_slow_02: 2, c05_slow_03: 3, c05_slow_04: 4, c05_slow_05: 5, c05_slow_06: 6, c05_slow_07: 7,
    c05_slow_08: 8, c05_slow_09: 9, c05_slow_10: 10, c05_slow_11: 11, c05_slow_12: 12, c05_slow_13: 13, c05_slow_14: 14, c05_slow_15: 15,
    c05_slow_16: 16, c05_slow_17: 17, c05_slow_18: 18, c05_slow_19: 19, c05_slow_20: 20, c05_slow_21: 21, c05_slow_22: 22, c05_slow_23: 23,
    c05_slow_24: 24, c05_slow_25: 25, c05_slow_26: 26, c05_slow_27: 27, c05_slow_28: 28, c05_slow_29: 29, c05_slow_30: 30, c05_slow_31: 31,
    c05_slow_32: 32, c05_slow_33: 33, c05_slow_34: 34, c05_slow_35: 35, c05_slow_36: 36, c05_slow_37: 37, c05_slow_38: 38, c05_slow_39: 39,
    c05_slow_40: 40, c05_slow_41: 41, c05_slow_42: 42, c05_slow_43: 43, c05_slow_44: 44, c05_slow_45: 45, c05_slow_46: 46, c05_slow_47: 47,
    c05_slow_48: 48, c05_slow_49: 49, c05_slow_50: 50, c05_slow_51: 51, c05_slow_52: 52, c05_slow_53: 53, c05_slow_54: 54, c05_slow_55: 55,
    c05_slow_56: 56, c05_slow_57: 57, c05_slow_58: 58, c05_slow_59: 59, c05_slow_60: 60, c05_slow_61: 61, c05_slow_62: 62, c05_slow_63: 63
}
