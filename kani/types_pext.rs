// C05, PEXT back end: lemma (a) "the table index ignores irrelevant occupancy bits" on the real
// get_pext_index, with the hardware instruction replaced by its specification (trusted: the Intel SDM
// definition of PEXT — gather the bits of `a` selected by `mask` into the low bits of the result).
use super::*;

fn pext_model(a: u64, mask: u64) -> u64 {
    let mut r = 0u64;
    let mut k = 0u32;
    let mut i = 0u32;
    while i < 64 {
        if (mask >> i) & 1 == 1 {
            r |= ((a >> i) & 1) << k;
            k += 1;
        }
        i += 1;
    }
    r
}

#[kani::proof]
#[kani::stub(pext_u64, pext_model)]
#[kani::unwind(66)]
fn c05_pext_index_irrelevant() {
    let i: u8 = kani::any();
    kani::assume(i < 64);
    let s = Square::index(i as usize);
    let occ: u64 = kani::any();
    let rmask = get_rook_relevant_blockers(s).0;
    let bmask = get_bishop_relevant_blockers(s).0;
    assert!(get_rook_moves_index(s, BitBoard(occ)) == get_rook_moves_index(s, BitBoard(occ & rmask)));
    assert!(get_bishop_moves_index(s, BitBoard(occ)) == get_bishop_moves_index(s, BitBoard(occ & bmask)));
    assert!(get_rook_moves_index(s, BitBoard(occ)) < SLIDING_MOVE_TABLE_SIZE);
    assert!(get_bishop_moves_index(s, BitBoard(occ)) < SLIDING_MOVE_TABLE_SIZE);
}
