// C17 — move batches.  Child module of `board::movegen::piece_moves` (sees the iterator's state).
// All harnesses are loop-free and full-domain: 6 pieces x 64 origins x 2^64 destination sets x all
// 64*64*7 queried moves.
use super::*;
use crate::chess_spec as sp;
use crate::verif_common::*;

fn any_batch() -> PieceMoves {
    PieceMoves { piece: any_piece(), from: any_square(), to: BitBoard(kani::any()) }
}

// O-C17.len: reported length and emptiness agree with the enumeration
#[kani::proof]
fn c17_len() {
    let b = any_batch();
    assert!(b.len() == sp::batch_len(b.piece as u8, b.to.0) as usize);
    assert!(b.is_empty() == (b.to.0 == 0));
    assert!(b.is_empty() == (b.len() == 0));
}

// O-C17.has: membership == "the enumeration yields the move" for every move value, including
// promotions to king / pawn and promotions attached to non-pawn batches
#[kani::proof]
fn c17_has() {
    let b = any_batch();
    let m = any_move();
    assert!(b.has(m) == sp::batch_has(b.piece as u8, b.from as u8, b.to.0, mv_of(m)));
}

/// is `m` still to be yielded by an iterator in state (batch, k)?  (k promotions of the lowest
/// destination have been delivered already)
fn in_view(piece: u8, from: u8, to: u64, k: u8, m: sp::Mv) -> bool {
    if !sp::batch_has(piece, from, to, m) {
        return false;
    }
    let lowest = to.trailing_zeros() as u8;
    // promotion order: knight, bishop, rook, queen = piece index 1..4
    !(m.to == lowest && m.promo != sp::NOPIECE && m.promo - 1 < k)
}

fn state_ok(it: &PieceMovesIter) -> bool {
    let to = it.moves.to.0;
    let lowest = to.trailing_zeros() as u8;
    it.promotion <= 3
        && (it.promotion == 0
            || (it.moves.piece == Piece::Pawn && to != 0 && (lowest >> 3 == 0 || lowest >> 3 == 7)))
}

// O-C17.next: step contract of the real `next` — returns the head of the remaining enumeration and
// leaves exactly the tail; exact remaining length; never reaches `unreachable!()`
#[kani::proof]
fn c17_iter_step() {
    let b = any_batch();
    // the initial state satisfies the state invariant
    let first = b.into_iter();
    assert!(first.promotion == 0 && first.moves == b && state_ok(&first));
    // an arbitrary state satisfying the invariant
    let k: u8 = kani::any();
    let mut it = PieceMovesIter { moves: b, promotion: k };
    kani::assume(state_ok(&it));
    let (piece, from, to) = (b.piece as u8, b.from as u8, b.to.0);
    let len_before = ExactSizeIterator::len(&it);
    assert!(len_before == sp::batch_len(piece, to) as usize - k as usize);
    let (lo, hi) = it.size_hint();
    assert!(lo == len_before && hi == Some(len_before));
    let q = mv_of(any_move()); // universally quantified move
    let r = it.next();
    assert!(state_ok(&it));
    assert!(it.moves.piece == b.piece && it.moves.from == b.from);
    match r {
        None => {
            assert!(to == 0 && len_before == 0);
            assert!(!in_view(piece, from, to, k, q));
            assert!(it.moves.to.0 == 0 && it.promotion == k);
        }
        Some(m) => {
            let m = mv_of(m);
            // the yielded move was pending, is the first one in enumeration order ...
            assert!(in_view(piece, from, to, k, m));
            assert!(m.to as u32 == to.trailing_zeros());
            if m.promo != sp::NOPIECE { assert!(m.promo - 1 == k); } else { assert!(k == 0); }
            // ... and afterwards exactly it is no longer pending
            let (to2, k2) = (it.moves.to.0, it.promotion);
            assert!(!in_view(piece, from, to2, k2, m));
            if q != m {
                assert!(in_view(piece, from, to, k, q) == in_view(piece, from, to2, k2, q));
            }
            assert!(ExactSizeIterator::len(&it) + 1 == len_before);
        }
    }
}
